// C10: overloaded functions dispatch on argument types.
// Mode E (bounded-exhaustive program generation). Every overload declaration is generated from a
// candidate list (parameter type tuples) in one declaration order and one declaration style; every
// candidate prints its own parameter types; the overload is called once per candidate with typed
// variables of exactly that candidate's parameter types. Oracle: the printed tags are the argument
// types, in call order (computed by the generator, no reference program).
package main

import (
	"fmt"
	"sort"
	"strings"

	"verif/engine"
	"verif/progs"
)

// ---- the type universe ----

type ptype struct {
	src  string // type as written in source
	name string // identifier fragment
	val  string // initialiser of the typed variable
	lam  string // func types: a lambda whose body type-checks against this type only
}

var universe = []ptype{
	{"int", "Int", "7", ""},
	{"string", "String", `"s"`, ""},
	{"float64", "Float64", "2.5", ""},
	{"bool", "Bool", "true", ""},
	{"[]int", "Ints", "[]int{1, 2}", ""},
	{"*foo", "Pfoo", "&foo{}", ""},
	// func-typed parameters (family lam1 only): the argument is also written as a lambda; whether the
	// lambda fits a candidate is only known after its body has been compiled against that candidate
	{"func(int) int", "FnII", "func(n int) int { return n }", "n => n * 2"},
	{"func(string) string", "FnSS", "func(s string) string { return s }", `s => s + "!"`},
	{"fn2", "FnIII", "func(p, q int) int { return p }", "(p, q) => p * q"},
	{"func(*foo) int", "FnPI", "func(p *foo) int { return 1 }", "p => p.v"},
	{"func(bool) bool", "FnBB", "func(b bool) bool { return b }", "b => !b"},
}

// baseTypes: the universe of the value-typed grids; the func types behind it belong to family lam1
const baseTypes = 6

// receiver pseudo type of the operator tables: "R" stands for the unit's own receiver type
const recvT = "R"

func lookup(src string) ptype {
	for _, t := range universe {
		if t.src == src {
			return t
		}
	}
	panic("unknown type " + src)
}

const prelude = "type foo struct {\n\tv int\n}\n\ntype fn2 func(int, int) int\n"

// ---- cases ----

// Case is one overload declaration plus its calls.
type Case struct {
	ID    int      `json:"id"`    // makes the generated identifiers unique inside a packed program
	Kind  string   `json:"kind"`  // set1 | pair2 | grid2 | class1 | op | opdirect
	Style string   `json:"style"` // literal | named | method | method-val | mixed-ln | mixed-nl | table | direct
	Cands []string `json:"cands"` // candidates in declaration order; each "T" or "T1,T2"
	Op    string   `json:"op,omitempty"`
	Under bool     `json:"under,omitempty"` // identifiers contain '_' (other separator in the Gopo_ constant name)
	// UnderMask: which identifiers carry the '_' (1 overload name, 2 receiver type, 4 candidate names); 0 = all
	UnderMask int `json:"under_mask,omitempty"`
}

// key names the declaration path (plain func/method overloads, overloads inside a class file,
// operator tables) and the style; the shape of the parameter lists is not part of the defect class.
func (k Case) key() string {
	u := ""
	if k.Under {
		u = "/names-with-underscore"
		if k.UnderMask != 0 {
			u += fmt.Sprintf("(mask %d)", k.UnderMask)
		}
	}
	switch k.Kind {
	case "class1":
		return "class-file/" + k.Style + u
	case "op", "opdirect":
		return "operator/" + k.Style + u
	}
	return "func/" + k.Style + u
}

func params(cand string) []string { return strings.Split(cand, ",") }

func candName(cand string, recv string) string {
	s := ""
	for _, p := range params(cand) {
		if p == recvT {
			s += "Self"
		} else {
			s += lookup(p).name
		}
	}
	return s
}

func srcType(p, recv string) string {
	if p == recvT {
		return recv
	}
	return p
}

func paramList(cand, recv string) string {
	var ps []string
	for i, p := range params(cand) {
		ps = append(ps, fmt.Sprintf("%c %s", 'a'+i, srcType(p, recv)))
	}
	return strings.Join(ps, ", ")
}

// canonical call order: independent of the declaration order
func callOrder(cands []string) []string {
	out := append([]string(nil), cands...)
	rank := func(c string) string {
		r := ""
		for _, p := range params(c) {
			if p == recvT {
				r += "9"
				continue
			}
			for i, t := range universe {
				if t.src == p {
					r += fmt.Sprint(i)
				}
			}
		}
		return r
	}
	sort.Slice(out, func(i, j int) bool { return rank(out[i]) < rank(out[j]) })
	return out
}

func varName(p string) string {
	if p == recvT {
		return "xSelf"
	}
	return "x" + lookup(p).name
}

// varDecls declares one typed variable per parameter type in use.
func varDecls(cands []string, recv string) string {
	seen := map[string]bool{}
	var sb strings.Builder
	for _, c := range callOrder(cands) {
		for _, p := range params(c) {
			if seen[p] {
				continue
			}
			seen[p] = true
			if p == recvT {
				fmt.Fprintf(&sb, "var xSelf %s\n", recv)
			} else {
				t := lookup(p)
				fmt.Fprintf(&sb, "var %s %s = %s\n", varName(p), t.src, t.val)
			}
		}
	}
	return sb.String()
}

func args(cand string) string {
	var as []string
	for _, p := range params(cand) {
		as = append(as, varName(p))
	}
	return strings.Join(as, ", ")
}

var cmpOps = map[string]bool{"==": true, "!=": true, "<": true, "<=": true, ">": true, ">=": true}

// gen renders the declarations and the unit body of a case. classDecls is the text that belongs
// into the class file Kls.gox (kind class1), decls the text for main.xgo.
func gen(k Case) (decls, classDecls, body, want string) {
	mask := k.UnderMask
	if mask == 0 {
		mask = 7
	}
	usIf := func(bit int) string {
		if k.Under && mask&bit != 0 {
			return "_"
		}
		return ""
	}
	ov := fmt.Sprintf("ov%s%d", usIf(1), k.ID)
	recv := fmt.Sprintf("rc%s%d", usIf(2), k.ID)
	fn := func(c string) string { return ov + usIf(4) + "f" + candName(c, recv) } // named function of a candidate
	mn := func(c string) string { return "m" + usIf(4) + candName(c, recv) }      // method of a candidate
	var d, b, w strings.Builder
	tag := func(c string) string { return strings.ReplaceAll(c, recvT, "self") }
	printTag := func(c string) string { return fmt.Sprintf("fmt.Println(%q)", tag(c)) }
	lit := func(c string) string {
		return fmt.Sprintf("\tfunc(%s) {\n\t\t%s\n\t}\n", paramList(c, recv), printTag(c))
	}
	sorted := callOrder(k.Cands)
	switch k.Kind {
	case "set1", "pair2", "grid2", "class1":
		isLit := func(i int) bool {
			switch k.Style {
			case "literal":
				return true
			case "mixed-ln":
				return i%2 == 0
			case "mixed-nl":
				return i%2 == 1
			}
			return false
		}
		switch k.Style {
		case "literal", "named", "mixed-ln", "mixed-nl":
			// named functions are declared in canonical order, not in list order
			for _, c := range sorted {
				idx := indexOf(k.Cands, c)
				if !isLit(idx) {
					fmt.Fprintf(&d, "func %s(%s) {\n\t%s\n}\n\n", fn(c), paramList(c, recv), printTag(c))
				}
			}
			fmt.Fprintf(&d, "func %s = (\n", ov)
			for i, c := range k.Cands {
				if isLit(i) {
					d.WriteString(lit(c))
				} else {
					fmt.Fprintf(&d, "\t%s\n", fn(c))
				}
			}
			d.WriteString(")\n")
		case "method", "method-val":
			star := "*"
			if k.Style == "method-val" {
				star = ""
			}
			fmt.Fprintf(&d, "type %s struct {\n}\n\n", recv)
			for _, c := range sorted {
				fmt.Fprintf(&d, "func (r %s%s) %s(%s) {\n\t%s\n}\n\n", star, recv, mn(c), paramList(c, recv), printTag(c))
			}
			fmt.Fprintf(&d, "func (%s).%s = (\n", recv, ov)
			for _, c := range k.Cands {
				fmt.Fprintf(&d, "\t(%s).%s\n", recv, mn(c))
			}
			d.WriteString(")\n")
		default:
			panic("style " + k.Style)
		}
		b.WriteString(varDecls(k.Cands, recv))
		call := ov
		switch {
		case k.Kind == "class1":
			b.WriteString("obj := &Kls{}\n")
			call = "obj." + ov
		case k.Style == "method":
			fmt.Fprintf(&b, "obj := &%s{}\n", recv)
			call = "obj." + ov
		case k.Style == "method-val":
			fmt.Fprintf(&b, "var obj %s\n", recv)
			call = "obj." + ov
		}
		for _, c := range sorted {
			fmt.Fprintf(&b, "%s(%s)\n", call, args(c))
			w.WriteString(tag(c) + "\n")
			// the same call with the func-typed argument written as a lambda, in call and in command style
			if ps := params(c); len(ps) == 1 && ps[0] != recvT && lookup(ps[0]).lam != "" {
				fmt.Fprintf(&b, "%s(%s)\n%s %s\n", call, lookup(ps[0]).lam, call, lookup(ps[0]).lam)
				w.WriteString(tag(c) + "\n" + tag(c) + "\n")
			}
		}
	case "op":
		// operator table of overload.md: methods for (R,x), plain functions for (x,R)
		ret, retStmt := "(ret "+recv+")", "return"
		if cmpOps[k.Op] {
			ret, retStmt = "bool", "return true"
		}
		fmt.Fprintf(&d, "type %s struct {\n}\n\n", recv)
		entry := func(c string) string {
			ps := params(c)
			if ps[0] == recvT {
				return fmt.Sprintf("(%s).%s", recv, mn(c))
			}
			return fn(c)
		}
		for _, c := range sorted {
			ps := params(c)
			if ps[0] == recvT {
				fmt.Fprintf(&d, "func (a %s) %s(b %s) %s {\n\t%s\n\t%s\n}\n\n", recv, mn(c), srcType(ps[1], recv), ret, printTag(c), retStmt)
			} else {
				fmt.Fprintf(&d, "func %s(%s) %s {\n\t%s\n\t%s\n}\n\n", fn(c), paramList(c, recv), ret, printTag(c), retStmt)
			}
		}
		fmt.Fprintf(&d, "func (%s).%s = (\n", recv, k.Op)
		for _, c := range k.Cands {
			fmt.Fprintf(&d, "\t%s\n", entry(c))
		}
		d.WriteString(")\n")
		b.WriteString(varDecls(k.Cands, recv))
		for _, c := range sorted {
			ps := params(c)
			fmt.Fprintf(&b, "_ = %s %s %s\n", varName(ps[0]), k.Op, varName(ps[1]))
			w.WriteString(tag(c) + "\n")
		}
	case "opdirect":
		// the directly defined operators of overload.md (one candidate each)
		fmt.Fprintf(&d, "type %s struct {\n}\n\n", recv)
		switch k.Op {
		case "unary":
			fmt.Fprintf(&d, "func -(a %s) (ret %s) {\n\tfmt.Println(\"-a\")\n\treturn\n}\n\nfunc ++(a %s) {\n\tfmt.Println(\"a++\")\n}\n", recv, recv, recv)
			fmt.Fprintf(&b, "var x %s\nvar y = -x\nx++\n_ = y\n", recv)
			w.WriteString("-a\na++\n")
		default:
			ret, retStmt := "(ret "+recv+")", "return"
			if cmpOps[k.Op] {
				ret, retStmt = "bool", "return true"
			}
			fmt.Fprintf(&d, "func (a %s) %s (b %s) %s {\n\tfmt.Println(\"self,self\")\n\t%s\n}\n", recv, k.Op, recv, ret, retStmt)
			fmt.Fprintf(&b, "var x, y %s\n_ = x %s y\n", recv, k.Op)
			w.WriteString("self,self\n")
		}
	default:
		panic("kind " + k.Kind)
	}
	if k.Kind == "class1" {
		return "", d.String(), b.String(), w.String()
	}
	return d.String(), "", b.String(), w.String()
}

func indexOf(l []string, s string) int {
	for i, x := range l {
		if x == s {
			return i
		}
	}
	return -1
}

func unitFor(k Case) progs.Unit {
	decls, _, body, want := gen(k)
	return progs.Unit{Key: k.key(), XGo: body, Want: want, Decls: decls}
}

func classFile(ks []Case) string {
	var sb strings.Builder
	sb.WriteString("import \"fmt\"\n\nvar (\n\tn int\n)\n\n")
	for _, k := range ks {
		_, cd, _, _ := gen(k)
		sb.WriteString(cd + "\n")
	}
	return sb.String()
}

func source(k Case) string {
	decls, cd, body, _ := gen(k)
	if cd != "" {
		return "--- Kls.gox (excerpt)\n" + cd + "--- main.xgo (unit body)\n" + body
	}
	return decls + "--- unit body\n" + body
}

func judge(k Case, r progs.UnitResult) *engine.Failure {
	det := fmt.Sprintf("case=%+v\nsource:\n%s\nwant=%q\ngot= %q", k, source(k), r.RefOut, r.Out)
	switch {
	case r.CompileErr != "":
		return &engine.Failure{Key: "does-not-compile:" + k.key(), What: "an overload declaration with pairwise distinct parameter types, or a call of it with typed variables, is rejected by the compiler", Detail: r.CompileErr + "\n" + det}
	case r.BuildErr != "":
		return &engine.Failure{Key: "generated-go-does-not-build:" + k.key(), What: "the Go code generated for an overload declaration and its calls does not build", Detail: r.BuildErr + "\n" + det}
	case r.Out != r.RefOut:
		return &engine.Failure{Key: "wrong-candidate:" + k.key(), What: "a call with typed variable arguments does not invoke the candidate whose parameter types are the argument types", Detail: det}
	}
	return nil
}

// ---- enumeration ----

func subsets(n, size int) [][]int {
	var out [][]int
	var rec func(start int, cur []int)
	rec = func(start int, cur []int) {
		if len(cur) == size {
			out = append(out, append([]int(nil), cur...))
			return
		}
		for i := start; i < n; i++ {
			rec(i+1, append(cur, i))
		}
	}
	rec(0, nil)
	return out
}

func perms(l []string) [][]string {
	if len(l) <= 1 {
		return [][]string{append([]string(nil), l...)}
	}
	var out [][]string
	for i := range l {
		rest := append(append([]string(nil), l[:i]...), l[i+1:]...)
		for _, p := range perms(rest) {
			out = append(out, append([]string{l[i]}, p...))
		}
	}
	return out
}

var funcStyles = []string{"literal", "named", "method", "method-val", "mixed-ln", "mixed-nl"}
var classStyles = []string{"literal", "named", "mixed-ln", "mixed-nl"}
var binOps = []string{"*", "+", "-", "/", "%", "&", "|", "^", "<<", ">>", "&^", "==", "!=", "<", "<=", ">", ">=", "->", "<>", "&&", "||"}

func enumerate(thorough bool) []Case {
	var cases []Case
	add := func(kind, style string, cands []string, op string) {
		cases = append(cases, Case{ID: len(cases), Kind: kind, Style: style, Cands: cands, Op: op})
	}
	// set1: all subsets of size 2..4 of the six types x all orderings x styles
	n := 0
	for size := 2; size <= 4; size++ {
		for _, ss := range subsets(baseTypes, size) {
			var l []string
			for _, i := range ss {
				l = append(l, universe[i].src)
			}
			for _, p := range perms(l) {
				for si, st := range funcStyles {
					// quick: size 2 in every style, size 3 in two styles per ordering, size 4 in one
					// style for every second ordering (the style rotates over the orderings)
					if thorough || size == 2 || size == 3 && n%3 == si%3 || size == 4 && n%(2*len(funcStyles)) == si {
						add("set1", st, p, "")
					}
				}
				n++
			}
		}
	}
	// lam1: candidates with func-typed parameters called with lambdas: every subset of size 2..3 of the five
	// func types plus int, in every order (a lambda is compiled against the candidates in list order, and a
	// body that fails against an earlier candidate must leave nothing behind for the later ones)
	lamPool := []string{"int"}
	for _, t := range universe[baseTypes:] {
		lamPool = append(lamPool, t.src)
	}
	n = 0
	for size := 2; size <= 3; size++ {
		for _, ss := range subsets(len(lamPool), size) {
			var l []string
			for _, i := range ss {
				l = append(l, lamPool[i])
			}
			for _, p := range perms(l) {
				for si, st := range []string{"literal", "named", "method", "mixed-ln"} {
					if thorough || size == 2 || n%4 == si {
						add("set1", st, p, "")
					}
				}
				n++
			}
		}
	}
	// pair2: two 2-parameter candidates that differ in exactly one position
	n = 0
	for _, ab := range subsets(baseTypes, 2) {
		a, b := universe[ab[0]].src, universe[ab[1]].src
		for _, c := range universe[:baseTypes] {
			for pos := 0; pos < 2; pos++ {
				l := []string{a + "," + c.src, b + "," + c.src}
				if pos == 1 {
					l = []string{c.src + "," + a, c.src + "," + b}
				}
				for _, p := range perms(l) {
					for si, st := range funcStyles {
						// thorough: three of the six styles per ordering, alternating
						if thorough && n%2 == si%2 || n%(2*len(funcStyles)) == si {
							add("pair2", st, p, "")
						}
					}
					n++
				}
			}
		}
	}
	// grid2: the four candidates (A,A) (A,B) (B,A) (B,B): every pair differs in one or two positions
	n = 0
	for _, ab := range subsets(baseTypes, 2) {
		a, b := universe[ab[0]].src, universe[ab[1]].src
		l := []string{a + "," + a, a + "," + b, b + "," + a, b + "," + b}
		for _, p := range perms(l) {
			for si, st := range funcStyles {
				if thorough && n%2 == si%2 || n%(4*len(funcStyles)) == si {
					add("grid2", st, p, "")
				}
			}
			n++
		}
	}
	// class1: overloads declared inside a class file (candidates become methods of the class)
	n = 0
	for size := 2; size <= 4; size++ {
		for _, ss := range subsets(baseTypes, size) {
			var l []string
			for _, i := range ss {
				l = append(l, universe[i].src)
			}
			for _, p := range perms(l) {
				for si, st := range classStyles {
					if (thorough && size < 4) || n%len(classStyles) == si && (thorough || size < 3 || n%3 == 0) {
						add("class1", st, p, "")
					}
				}
				n++
			}
		}
	}
	// op: the operator table of overload.md, every subset of size 2..3 in every order, for every
	// binary operator; for `*` two more candidates (R,string) (string,R), subsets of size 2..4
	table := []string{recvT + ",int", recvT + "," + recvT, "int," + recvT}
	ext := append(append([]string(nil), table...), recvT+",string", "string,"+recvT)
	for oi, op := range binOps {
		base := table
		max := 3
		if op == "*" && thorough {
			base, max = ext, 4
		}
		for size := 2; size <= max; size++ {
			for _, ss := range subsets(len(base), size) {
				var l []string
				for _, i := range ss {
					l = append(l, base[i])
				}
				for pi, p := range perms(l) {
					if thorough || oi < 3 || size == 3 && pi%2 == oi%2 {
						add("op", "table", p, op)
					}
				}
			}
		}
	}
	// names with '_': the Gopo_ constant uses another separator (cl: overloadName; gogen: checkTypeMethod)
	// the '_' goes into all identifiers and into each kind of identifier alone (overload name, receiver type,
	// candidate names): the separator rule looks at the receiver and at the name separately
	masks := []int{0, 2, 1}
	if thorough {
		masks = []int{0, 1, 2, 4, 3, 5, 6}
	}
	under := func(kind, style string, cands []string, op string) {
		for _, m := range masks {
			cases = append(cases, Case{ID: len(cases), Kind: kind, Style: style, Cands: cands, Op: op, Under: true, UnderMask: m})
		}
	}
	n = 0
	for size := 2; size <= 3; size++ {
		for _, ss := range subsets(baseTypes, size) {
			var l []string
			for _, i := range ss {
				l = append(l, universe[i].src)
			}
			for _, p := range perms(l) {
				for si, st := range funcStyles {
					if thorough || n%len(funcStyles) == si {
						under("set1", st, p, "")
					}
				}
				for si, st := range classStyles {
					if thorough || n%(2*len(classStyles)) == si {
						under("class1", st, p, "")
					}
				}
				n++
			}
		}
	}
	for oi, op := range binOps {
		if !thorough && oi > 2 && op != "!=" {
			continue
		}
		for size := 2; size <= 3; size++ {
			for _, ss := range subsets(len(table), size) {
				var l []string
				for _, i := range ss {
					l = append(l, table[i])
				}
				for _, p := range perms(l) {
					under("op", "table", p, op)
				}
			}
		}
	}
	add("opdirect", "direct", nil, "unary")
	for _, op := range binOps {
		add("opdirect", "direct", nil, op)
	}
	return cases
}

const (
	classChunk = 400
	plainBatch = 1600 // four programs per go build
)

func main() {
	c := engine.New("C10", "exploration")
	if c.IsReplay() {
		var k Case
		c.LoadReplay(&k)
		o := progs.Options{Prelude: prelude}
		if k.Kind == "class1" {
			o.XGoFiles = map[string]string{"Kls.gox": classFile([]Case{k})}
		}
		res, err := progs.RunUnits([]progs.Unit{unitFor(k)}, o)
		if err != nil {
			c.Fatal("%v", err)
		}
		c.ReplayResult(judge(k, res[0]))
	}
	cases := enumerate(c.Thorough())
	results := make([]progs.UnitResult, len(cases))
	var plain, class []int
	for i, k := range cases {
		if k.Kind == "class1" {
			class = append(class, i)
		} else {
			plain = append(plain, i)
		}
	}
	skipped := make([]bool, len(cases))
	nSkipped := 0
	run := func(idx []int, o progs.Options) {
		if c.Expired() { // internal budget used up: the remaining batches are not evaluated
			for _, i := range idx {
				skipped[i] = true
			}
			nSkipped += len(idx)
			return
		}
		units := make([]progs.Unit, len(idx))
		for j, i := range idx {
			units[j] = unitFor(cases[i])
		}
		res, err := progs.RunUnits(units, o)
		if err != nil {
			c.Fatal("%v", err)
		}
		for j, i := range idx {
			results[i] = res[j]
		}
	}
	// all class-file cases of a chunk share one Kls.gox: a case that does not compile on its own
	// (its Kls.gox holding only its own declaration) is judged alone and kept out of the chunks
	var classOK []int
	for _, i := range class {
		k := cases[i]
		main := progs.Source([]progs.Unit{unitFor(k)}, []int{0}, progs.Options{Prelude: prelude}, true)
		if _, err := progs.CompileXGoFiles(map[string]string{"Kls.gox": classFile([]Case{k}), "main.xgo": main}, nil); err != nil {
			l := strings.Split(err.Error(), "\n")
			if len(l) > 3 {
				l = l[:3]
			}
			results[i].CompileErr = strings.Join(l, " | ")
			continue
		}
		classOK = append(classOK, i)
	}
	class = classOK
	// batches: the small kinds first (operators, sets of 2..3 candidates), so that a run cut short by
	// the internal deadline has seen every kind; plain batches and class-file chunks alternate
	prio := func(k Case) int {
		switch {
		case k.Kind == "op" || k.Kind == "opdirect":
			return 0
		case k.Kind == "set1" && len(k.Cands) < 4 && !k.Under:
			return 1
		case k.Kind == "pair2":
			return 2
		case k.Under:
			return 3
		case k.Kind == "grid2":
			return 4
		}
		return 5
	}
	sort.SliceStable(plain, func(a, b int) bool { return prio(cases[plain[a]]) < prio(cases[plain[b]]) })
	for len(plain) > 0 || len(class) > 0 {
		if n := len(plain); n > 0 {
			if n > plainBatch {
				n = plainBatch
			}
			run(plain[:n], progs.Options{Prelude: prelude, PerProgram: 400})
			plain = plain[n:]
		}
		if n := len(class); n > 0 {
			if n > classChunk {
				n = classChunk
			}
			idx := class[:n]
			var ks []Case
			for _, i := range idx {
				ks = append(ks, cases[i])
			}
			run(idx, progs.Options{Prelude: prelude, PerProgram: classChunk, XGoFiles: map[string]string{"Kls.gox": classFile(ks)}})
			class = class[n:]
		}
	}
	if nSkipped > 0 {
		c.Cap(fmt.Sprintf("internal deadline: %d of %d cases were not evaluated", nSkipped, len(cases)))
	}
	notRun := 0
	calls := 0
	for i, k := range cases {
		if skipped[i] {
			c.Hist("not_evaluated_internal_deadline", 1)
			continue
		}
		c.Eval(1)
		if len(k.Cands) >= 2 {
			c.NontrivialN(1)
		}
		calls += len(k.Cands)
		c.Hist("kind:"+k.Kind, 1)
		c.Hist("style:"+k.Style, 1)
		if k.Under {
			c.Hist("names-with-underscore", 1)
		}
		if len(k.Cands) > 0 {
			c.Hist(fmt.Sprintf("candidates:%d", len(k.Cands)), 1)
		}
		if i%701 == 0 {
			c.Sample(map[string]any{"case": k, "source": source(k), "want": unitFor(k).Want})
		}
		r := results[i]
		if !r.Ran && r.CompileErr == "" && r.BuildErr == "" {
			c.Hist("not_run_after_abnormal_end_of_an_earlier_unit", 1)
			notRun++
			continue
		}
		if f := judge(k, r); f != nil {
			c.Violate(k, f)
		}
	}
	if notRun > 0 {
		c.Cap(fmt.Sprintf("%d cases were queued behind an abnormally ended unit and were not run", notRun))
	}
	c.Extra["dispatched_calls"] = calls
	c.Extra["binary_operators"] = binOps
	c.Rule = "parameter types {int,string,float64,bool,[]int,*foo}. set1: every subset of size 2..4 (50) in every declaration order (510) x styles {func literals, named funcs, pointer-receiver methods (T).m, value-receiver methods (T).m, literal/named alternating, named/literal alternating}; pair2: two 2-parameter candidates differing in exactly one position ((A,C),(B,C) and (C,A),(C,B), all A<B, all C, both orders) x three of the six styles per ordering (alternating); grid2: the four candidates (A,A),(A,B),(B,A),(B,B) for all A<B in all 24 orders x three of the six styles per ordering (alternating); class1: set1 declared inside a class file Kls.gox (literal, named, mixed); op: `func (R).OP = (...)` with the table (R,int),(R,R),(int,R) of overload.md, all subsets of size 2..3 in all orders, for 21 binary operators (for `*` also (R,string),(string,R), subsets up to 4); opdirect: the directly defined unary and binary operators of overload.md; names-with-underscore: set1 (sizes 2..3), class1 and the operator tables again with '_' in all of the overload, receiver and candidate names and in each kind of name alone (quick: all / receiver only / overload name only; thorough: all 7 non-empty subsets). Every overload is called once per candidate with typed variables, in a canonical order independent of the declaration order. quick keeps every ordering of the sets of 2 and 3 candidates and thins the styles per ordering (the style rotates over the orderings), and thins size-4 sets, pair2, grid2, class1 and the operators. distinct_nontrivial = cases with at least two candidates"
	c.Assumptions = []string{
		"arguments are typed variables only; untyped constants (accepted by several candidates, resolved by declaration order) are outside the premise 'pairwise distinguishable' and are not generated",
		"expected output is computed by the generator: the tag of the candidate whose parameter types equal the argument types, one line per call",
		"programs are compiled in-process by parser+cl+gogen, built by the Go toolchain in a scratch module (go 1.23) and run with GOMAXPROCS=1",
	}
	c.Finish()
}

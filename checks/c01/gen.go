package main

import (
	"fmt"
	"go/ast"
	"go/parser"
	"go/token"
	"sort"
	"strconv"
	"strings"
	"unicode"
)

// ---- typed expression sets (appendix J) ----

// expr is one expression of a per-type set. Const: a Go constant expression (must not be put into
// holes whose position is checked at compile time: divisors, shift counts, indices, case labels,
// narrowing conversions). Op: needs parentheses when inserted into a larger expression.
type expr struct {
	Src   string
	Const bool
	Op    bool
}

type exprSet struct {
	Atoms int // the first Atoms entries are the atoms (quick tier)
	E     []expr
}

func a(src string) expr  { return expr{Src: src} }              // atom / primary expression
func k(src string) expr  { return expr{Src: src, Const: true} } // constant primary
func kn(src string) expr { return expr{Src: src, Const: true, Op: true} }
func o(src string) expr  { return expr{Src: src, Op: true} } // operator expression

// Environment of every unit (see envPre): i=5 j=3 b=true s="go" f=2.5 xs=[4 1 3] m={a:1 b:2}
// pv=P{2,3,"n"} pp=&P{7,1,"q"}.
var sets = map[string]*exprSet{
	"int": {6, []expr{
		k("0"), k("1"), kn("-3"), k("7"), a("i"), a("j"),
		o("i + j"), o("i - j"), o("i * j"), o("i / 2"), o("i % 3"), o("i << 2"), o("i &^ j"), o("-i"),
		a("xs[1]"), a("pv.Sum()"), a("t(j)"),
	}},
	"bool": {3, []expr{
		k("true"), k("false"), a("b"),
		o("i < j"), o("i == j"), o("!b"), o("b && (i > 0)"), o("b || (j > 0)"), o(`s == "a"`), o("i >= j"),
		a("tb(b)"), o("tb(false) || tb(b)"), o("tb(false) && tb(b)"),
	}},
	"string": {4, []expr{
		k(`""`), k(`"a"`), k(`"hé世"`), a("s"),
		o(`s + "b"`), a("s[0:1]"), a("fmt.Sprint(i)"), a("strings.ToUpper(s)"), o("s + s"), a("string(rune(65 + i))"),
		a("ts(s)"), a("strings.Repeat(s, j)"), a("pv.Name"), a(`fmt.Sprintf("%03d|%-3s|", i, s)`),
	}},
	"float": {3, []expr{
		k("0.5"), k("1e6"), a("f"),
		a("float64(i)"), o("f * 2"), o("f / 4"), o("float64(i) / float64(j)"), o("-f"), o("f + 0.1"), o("f - float64(j)"),
		a("math.Sqrt(float64(i))"), o("f * f * f"),
	}},
	"[]int": {2, []expr{
		a("[]int(nil)"), a("xs"),
		a("xs[1:]"), a("append(xs, i)"), a("[]int{i, j}"), a("xs[:0]"), a("[]int{}"), a("make([]int, 2)"), a("xs[:2]"),
		a("append([]int{9}, xs...)"), a("append(xs[:1], 8)"), a("xs[1:2:2]"),
	}},
	"map": {2, []expr{
		a("m"), a("map[string]int(nil)"),
		a("map[string]int{}"), a(`map[string]int{"a": i}`), a(`map[string]int{s: j, "z": 0}`), a("make(map[string]int, 4)"),
	}},
	"P": {2, []expr{
		a("pv"), a("P{}"),
		a(`P{1, 2, "k"}`), a("P{X: i}"), a("*pp"), a("P{Y: j, Name: s}"), a("mkP(i, j)"), a("*pp.Set(j)"),
	}},
	"*P": {2, []expr{
		a("pp"), a("&pv"),
		a("&P{i, j, s}"), a("(*P)(nil)"), a("new(P)"), a("pp.Set(i)"),
	}},
	"func": {2, []expr{
		a("inc"), a("func(v int) int { return v * j }"),
		a("pv.Add"), a("adder(i)"), a("func(v int) int { i++; return v - i }"), a("pp.Add"),
	}},
	"error": {2, []expr{
		a("error(nil)"), a("errOdd"),
		a(`fmt.Errorf("e%d", i)`), a("&MyErr{i}"), a(`fmt.Errorf("wrap: %w", errOdd)`), a("error((*MyErr)(nil))"),
	}},
	"any": {8, []expr{
		a("nil"), k("1"), k(`"a"`), a("i"), a("s"), a("b"), a("pv"), a("pp"),
		a("xs"), k("2.5"), k("'c'"), a("int8(3)"), a("errOdd"), a("m"), a("[2]int{1, 2}"), a("struct{ Aa int }{i}"),
		a("&MyErr{j}"), a("Blue"), a("uint(7)"), a("Q{pv, 4}"), a("IntList(xs)"), a("f"), a("(*P)(nil)"),
	}},
}

// ---- templates ----

type tmpl struct {
	ID    string
	Holes []string // type name, optional "!" suffix: constant expressions not admitted
	Body  string   // "@1" hole 1 (parenthesised when an operator expression), "@b1" bare, "#" label suffix
	Mut   bool     // mutates the shared environment: member of the pair enumeration
	Max   int      // optional cap on the number of expressions per hole (0 = whole set)
}

func holeType(h string) (string, bool) {
	if strings.HasSuffix(h, "!") {
		return h[:len(h)-1], true
	}
	return h, false
}

// candidates returns the admissible expression indices of one hole.
func candidates(h string, thorough bool, max int) []int {
	ty, nonconst := holeType(h)
	set := sets[ty]
	if set == nil {
		panic("unknown hole type " + ty)
	}
	n := set.Atoms
	if thorough {
		n = len(set.E)
	}
	if max > 0 && n > max && thorough {
		n = max
	}
	var out []int
	for i := 0; i < n; i++ {
		if nonconst && set.E[i].Const {
			continue
		}
		out = append(out, i)
	}
	return out
}

// fillings enumerates the complete cartesian product of the holes, simplest first.
func fillings(t *tmpl, thorough bool) [][]int {
	res := [][]int{{}}
	for _, h := range t.Holes {
		var next [][]int
		for _, r := range res {
			for _, c := range candidates(h, thorough, t.Max) {
				next = append(next, append(append([]int(nil), r...), c))
			}
		}
		res = next
	}
	sort.SliceStable(res, func(x, y int) bool { return weight(res[x]) < weight(res[y]) })
	return res
}

func weight(f []int) int {
	w := 0
	for _, v := range f {
		w += v
	}
	return w
}

// defaultFill: the first non-constant expression for hole 1, the second for hole 2, ...
func defaultFill(t *tmpl) []int {
	var out []int
	seen := map[string]int{}
	for _, h := range t.Holes {
		ty, _ := holeType(h)
		c := candidates(ty+"!", false, 0)
		out = append(out, c[seen[ty]%len(c)])
		seen[ty]++
	}
	return out
}

func isAtomFill(t *tmpl, f []int) bool {
	for n, h := range t.Holes {
		ty, _ := holeType(h)
		if f[n] >= sets[ty].Atoms {
			return false
		}
	}
	return true
}

// render instantiates a template body; pos is the label suffix ("" for single units).
func render(t *tmpl, f []int, pos string) (string, error) {
	if len(f) != len(t.Holes) {
		return "", fmt.Errorf("template %s has %d holes, filling has %d", t.ID, len(t.Holes), len(f))
	}
	body := strings.ReplaceAll(t.Body, "#", pos)
	for n := len(t.Holes); n >= 1; n-- {
		ty, _ := holeType(t.Holes[n-1])
		set := sets[ty]
		if f[n-1] < 0 || f[n-1] >= len(set.E) {
			return "", fmt.Errorf("template %s hole %d: index %d out of range", t.ID, n, f[n-1])
		}
		e := set.E[f[n-1]]
		body = strings.ReplaceAll(body, "@b"+strconv.Itoa(n), e.Src)
		p := e.Src
		if e.Op {
			p = "(" + p + ")"
		}
		body = strings.ReplaceAll(body, "@"+strconv.Itoa(n), p)
	}
	return body, nil
}

const envPre = "i, j, b, s, f := 5, 3, true, \"go\", 2.5\nxs, m := []int{4, 1, 3}, map[string]int{\"a\": 1, \"b\": 2}\npv, pp := P{2, 3, \"n\"}, &P{7, 1, \"q\"}\n"
const envPost = "\ndump(i, j, b, s, f, xs, m, pv, pp)"

func unitBody(parts ...string) string {
	if len(parts) == 1 {
		return envPre + parts[0] + envPost
	}
	var sb strings.Builder
	sb.WriteString(envPre)
	for _, p := range parts {
		sb.WriteString("{\n" + p + "\n}\n")
	}
	sb.WriteString(strings.TrimPrefix(envPost, "\n"))
	return sb.String()
}

// ---- subset self-check (harness side, plain go/parser; no knowledge of cl) ----

// Words that are predeclared or contextual in XGo but ordinary identifiers in Go.
var xgoWords = map[string]bool{"echo": true, "print": true, "println": true, "printf": true, "errorf": true,
	"fprint": true, "fprintln": true, "fprintf": true, "sprint": true, "sprintln": true, "sprintf": true,
	"open": true, "create": true, "lines": true, "blines": true, "errorln": true, "fatal": true, "newRange": true,
	"any": true, "bigint": true, "bigrat": true, "bigfloat": true, "uint128": true, "int128": true, "in": true, "tpl": true,
	"min": true, "max": true, "clear": true}

type nameSets struct {
	scope, member map[string]bool // declared names
	use, muse     map[string]bool // used plain identifiers / selected members
	imports       map[string]bool
}

func newNameSets() *nameSets {
	return &nameSets{map[string]bool{}, map[string]bool{}, map[string]bool{}, map[string]bool{}, map[string]bool{}}
}

func collect(src string, ns *nameSets) error {
	fset := token.NewFileSet()
	f, err := parser.ParseFile(fset, "x.go", src, 0)
	if err != nil {
		return err
	}
	for _, im := range f.Imports {
		p, _ := strconv.Unquote(im.Path.Value)
		ns.imports[p[strings.LastIndex(p, "/")+1:]] = true
	}
	sel := map[*ast.Ident]bool{}
	fields := func(fl *ast.FieldList, into map[string]bool) {
		if fl == nil {
			return
		}
		for _, fd := range fl.List {
			for _, n := range fd.Names {
				into[n.Name] = true
				sel[n] = true
			}
			if len(fd.Names) == 0 { // embedded field: its type name is also a member name
				if id, ok := fd.Type.(*ast.Ident); ok {
					into[id.Name] = true
				}
			}
		}
	}
	var bad error
	ast.Inspect(f, func(n ast.Node) bool {
		switch v := n.(type) {
		case *ast.FuncDecl:
			if v.Recv != nil {
				ns.member[v.Name.Name] = true
				sel[v.Name] = true
			} else {
				ns.scope[v.Name.Name] = true
			}
		case *ast.StructType:
			fields(v.Fields, ns.member)
		case *ast.InterfaceType:
			fields(v.Methods, ns.member)
		case *ast.SelectorExpr:
			sel[v.Sel] = true
			if id, ok := v.X.(*ast.Ident); !ok || !ns.imports[id.Name] {
				ns.muse[v.Sel.Name] = true
			}
		case *ast.KeyValueExpr:
			if id, ok := v.Key.(*ast.Ident); ok && id.Obj == nil && unicode.IsUpper(rune(id.Name[0])) {
				sel[id] = true // field key of a struct literal
				ns.muse[id.Name] = true
			}
		case *ast.TypeSpec:
			ns.scope[v.Name.Name] = true
		case *ast.ValueSpec:
			for _, id := range v.Names {
				ns.scope[id.Name] = true
			}
		case *ast.AssignStmt:
			if v.Tok == token.DEFINE {
				for _, l := range v.Lhs {
					if id, ok := l.(*ast.Ident); ok {
						ns.scope[id.Name] = true
					}
				}
			}
		case *ast.LabeledStmt:
			ns.scope[v.Label.Name] = true
		case *ast.FuncType:
			for _, fl := range []*ast.FieldList{v.Params, v.Results} {
				if fl != nil {
					for _, fd := range fl.List {
						for _, id := range fd.Names {
							ns.scope[id.Name] = true
						}
					}
				}
			}
		case *ast.RangeStmt:
			if v.Tok == token.DEFINE {
				for _, l := range []ast.Expr{v.Key, v.Value} {
					if id, ok := l.(*ast.Ident); ok {
						ns.scope[id.Name] = true
					}
				}
			}
		case *ast.BasicLit:
			if v.Kind == token.STRING && strings.Contains(v.Value, "$") {
				bad = fmt.Errorf("string literal %s contains '$'", v.Value)
			}
		case *ast.Ident:
			if !sel[v] {
				ns.use[v.Name] = true
			}
		}
		return true
	})
	return bad
}

func capitalised(s string) string {
	r := []rune(s)
	r[0] = unicode.ToUpper(r[0])
	return string(r)
}

// subsetError reports why a program (prelude names + unit names) is outside the stated subset.
func subsetError(pre, unit *nameSets) error {
	has := func(m1, m2 map[string]bool, n string) bool { return m1[n] || m2[n] }
	check := func(lower map[string]bool, what string, d1, d2 map[string]bool) error {
		for n := range lower {
			if n == "_" || !unicode.IsLower([]rune(n)[0]) {
				continue
			}
			if has(d1, d2, capitalised(n)) {
				return fmt.Errorf("%s %q has a declared capitalised twin", what, n)
			}
		}
		return nil
	}
	for _, u := range []*nameSets{pre, unit} {
		if err := check(u.use, "identifier", pre.scope, unit.scope); err != nil {
			return err
		}
		if err := check(u.scope, "declared name", pre.scope, unit.scope); err != nil {
			return err
		}
		if err := check(u.muse, "selected member", pre.member, unit.member); err != nil {
			return err
		}
		if err := check(u.member, "declared member", pre.member, unit.member); err != nil {
			return err
		}
		for n := range u.scope {
			if xgoWords[n] {
				return fmt.Errorf("declared name %q is predeclared or contextual in XGo", n)
			}
		}
		for n := range u.use {
			if xgoWords[n] {
				return fmt.Errorf("identifier %q is predeclared or contextual in XGo", n)
			}
		}
	}
	return nil
}

package main

import (
	"fmt"
	"strings"
)

// Operator precedence and associativity: every ordered pair of the integer binary operators written
// without parentheses (a op1 b op2 c), every pair mixing an arithmetic operator with a comparison and a
// logical operator, and unary operators in front of binary ones. One unit per first operator keeps the
// units small; the operands are chosen so that no division by zero or oversized shift occurs and so that
// the two groupings of most pairs give different values.
func precedenceTemplates() []*tmpl {
	intOps := []string{"+", "-", "|", "^", "*", "/", "%", "<<", ">>", "&", "&^"}
	var out []*tmpl
	for _, op1 := range intOps {
		var sb strings.Builder
		sb.WriteString("u, v, w := 13, 6, 3\n")
		for _, op2 := range intOps {
			fmt.Fprintf(&sb, "fmt.Print(u %s v %s w, \" \")\n", op1, op2)
			fmt.Fprintf(&sb, "fmt.Print(w %s u %s v, \" \")\n", op1, op2)
		}
		// with unary operators and a comparison / logical tail
		fmt.Fprintf(&sb, "fmt.Print(-u %s v, ^u %s v, -u %s -v, \" \")\n", op1, op1, op1)
		fmt.Fprintf(&sb, "fmt.Print(u %s v < w+50, u %s v == w || v < w && u > w, !(u %s v > w) && v > w, \" \")\n", op1, op1, op1)
		fmt.Fprintf(&sb, "fmt.Print(u %s v %s w %s u, \" \")\n", op1, op1, op1)
		sb.WriteString("fmt.Println()")
		name := map[string]string{"+": "add", "-": "sub", "|": "or", "^": "xor", "*": "mul", "/": "quo", "%": "rem", "<<": "shl", ">>": "shr", "&": "and", "&^": "andnot"}[op1]
		out = append(out, &tmpl{ID: "precedence-" + name, Body: sb.String()})
	}
	// comparison and logical operators among themselves, string concatenation with comparison
	out = append(out, &tmpl{ID: "precedence-logical", Body: `u, v, w := 13, 6, 3
t, g := true, false
fmt.Println(t || g && g, g && g || t, t && g || t && t, !t || t, !g && g, t == g || t, t != g && t, u < v || v < w && w < u, u > v == (v > w), u+v > w*2 == t, s+"x" < s+"y" && t, s+"a"+"b" == "go"+"ab" != g)`})
	return out
}

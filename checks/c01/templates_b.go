package main

var templatesB = []*tmpl{
	// ---- switch ----
	{ID: "switch-tag", Holes: []string{"int"}, Body: `switch u := @b1; u {
case 0:
	fmt.Println("zero")
case 1, 7:
	fmt.Println("one or seven")
case j, i + 1:
	fmt.Println("j or i+1")
default:
	fmt.Println("default", u)
}`},
	{ID: "switch-tag-traced", Holes: []string{"int", "int"}, Body: `switch t(@b1) {
case t(@b2):
	fmt.Println("first")
case t(1), t(5):
	fmt.Println("second")
case t(j):
	fmt.Println("third")
default:
	fmt.Println("default")
}`},
	{ID: "switch-notag", Holes: []string{"int"}, Body: `u := @b1
switch {
case u > 3:
	fmt.Println("gt3")
case u > 0:
	fmt.Println("gt0")
case u == 0:
	fmt.Println("zero")
}
switch w := u * 2; {
case w < 0, w > 10:
	fmt.Println("outside", w)
default:
	fmt.Println("inside", w)
}`},
	{ID: "switch-fallthrough", Holes: []string{"int"}, Body: `switch u := @b1; {
case u < 0:
	fmt.Print("neg ")
	fallthrough
case u == 0:
	fmt.Print("zero ")
case u < 5:
	fmt.Print("small ")
	fallthrough
case u < 3:
	fmt.Print("(tiny) ")
	fallthrough
default:
	fmt.Print("dflt ")
}
switch u := @b1; u {
case 1:
	fmt.Print("one ")
	fallthrough
case 100:
	fmt.Print("hundred ")
	fallthrough
case 5:
	fmt.Print("five ")
case 3:
	fmt.Print("three ")
}
fmt.Println()`},
	{ID: "switch-default-placement", Holes: []string{"int"}, Body: `switch u := @b1; u {
default:
	fmt.Print("dflt ")
	fallthrough
case 1:
	fmt.Print("one ")
case 7:
	fmt.Print("seven ")
}
switch u := @b1; {
case u == 1:
	fmt.Print("one ")
default:
	fmt.Print("dflt ")
	fallthrough
case u == 7:
	fmt.Print("seven ")
	fallthrough
case u == 99:
	fmt.Print("ninety-nine ")
}
fmt.Println()`},
	{ID: "switch-string", Holes: []string{"string"}, Body: `switch w := @b1; w {
case "", "a":
	fmt.Println("empty or a")
case s, s + "b":
	fmt.Println("s or sb")
case "GO":
	fmt.Println("upper")
default:
	fmt.Println("other", len(w))
}`},
	{ID: "switch-bool-tag", Holes: []string{"bool", "bool"}, Body: `switch tb(@b1) {
case tb(@b2):
	fmt.Println("same")
case !tb(@b2):
	fmt.Println("different")
}
switch c := @b1; c {
case true:
	fmt.Println("T")
case false:
	fmt.Println("F")
}`},
	{ID: "switch-break", Holes: []string{"bool", "int"}, Body: `for n := 0; n < 3; n++ {
	switch {
	case n == @2:
		if @b1 {
			break
		}
		fmt.Print("after-if ")
	case n > @2:
		continue
	}
	fmt.Print("n", n, " ")
}
fmt.Println()`},
	{ID: "switch-empty-init", Holes: []string{"int"}, Body: `switch u := t(@b1); {
case u > 100:
}
switch t(@b1) {
}
switch u := @b1; u {
case t(u):
}
switch u, w := @b1, @1 + 1; w {
case u:
	fmt.Println("impossible")
case u + 1:
	fmt.Println("succ")
}`},
	{ID: "type-switch", Holes: []string{"any"}, Body: `var v interface{} = @b1
switch w := v.(type) {
case nil:
	fmt.Println("nil", w)
case int:
	fmt.Println("int", w+1)
case string:
	fmt.Println("string", w+"!")
case bool:
	fmt.Println("bool", !w)
case P:
	fmt.Println("P", w.X, w.Sum())
case *P:
	fmt.Println("*P", w == nil)
case error:
	fmt.Println("error", w.Error())
case []int:
	fmt.Println("[]int", len(w))
case fmt.Stringer:
	fmt.Println("Stringer", w.String())
case int8, float64, rune:
	fmt.Printf("num %T %v\n", w, w)
case map[string]int, [2]int:
	fmt.Printf("container %T %v\n", w, w)
default:
	fmt.Printf("default %T %v\n", w, w)
}`},
	{ID: "type-switch-nil-clause-binding", Holes: []string{"any"}, Max: 10, Body: `var v interface{} = @b1
switch w := v.(type) {
case nil:
	fmt.Println("nil clause: the binding has the type of v:", w == nil)
case int, string:
	fmt.Println("multi-type clause: the binding has the type of v:", w != nil, w == v)
default:
	fmt.Printf("%T\n", w)
}`},
	{ID: "type-switch-nobind", Holes: []string{"any"}, Body: `var v interface{} = @b1
switch v.(type) {
case int, string:
	fmt.Print("int|string ")
case Shape:
	fmt.Print("Shape ")
case nil:
	fmt.Print("nil ")
case interface{ Error() string }:
	fmt.Print("has Error ")
default:
	fmt.Print("other ")
}
switch g := 10; w := v.(type) {
case uint, Color:
	fmt.Printf("%T %v %d\n", w, w, g)
case IntList:
	fmt.Println("IntList", w.Total()+g)
default:
	_ = w
	fmt.Println("dflt", g)
}`},
	{ID: "type-assert", Holes: []string{"any"}, Body: `var v interface{} = @b1
n, ok := v.(int)
w, ok2 := v.(string)
st, ok3 := v.(fmt.Stringer)
_, ok4 := v.(Shape)
fmt.Println(n, ok, w, ok2, st == nil, ok3, ok4)
try(func() { fmt.Println(v.(int) + 1) })
try(func() { fmt.Println(v.(fmt.Stringer).String()) })
try(func() { fmt.Println(v.(Shape).Sum()) })
try(func() { fmt.Println(v.(*P).X) })
try(func() { fmt.Println(v.(error)) })`},

	// ---- defer / panic / recover ----
	{ID: "defer-order", Holes: []string{"int"}, Body: `func() {
	for n := 0; n < 3; n++ {
		defer fmt.Print("d", n+@1, " ")
	}
	u := @b1
	defer fmt.Print("u", u, " ")
	u++
	defer func() { fmt.Print("closure", u, " ") }()
	u++
	fmt.Print("body ")
}()
fmt.Println()`},
	{ID: "defer-args-traced", Holes: []string{"int", "int"}, Body: `func() {
	defer add2(t(@b1), t(@b2))
	defer func(c int) { fmt.Print("got", c, " ") }(t(9))
	fmt.Print("body ")
}()
fmt.Println()`},
	{ID: "defer-named-result", Holes: []string{"int", "int"}, Body: `g := func() (res int) {
	defer func() { res += @b2 }()
	defer func() { res *= 2 }()
	res = 1
	return @b1
}
h := func() (res int, err error) {
	defer func() {
		if res > 4 {
			err = errOdd
		}
	}()
	res = @b2
	return
}
fmt.Println(g())
fmt.Println(h())`},
	{ID: "defer-recover", Holes: []string{"bool", "string"}, Body: `g := func() (err error) {
	defer func() {
		if e := recover(); e != nil {
			err = fmt.Errorf("recovered: %v", e)
		}
	}()
	if @b1 {
		panic(@b2)
	}
	fmt.Print("no panic ")
	return nil
}
fmt.Println(g())
fmt.Println(recover())`},
	{ID: "recover-repanic", Holes: []string{"string"}, Body: `func() {
	defer fmt.Println("outermost deferred")
	defer func() {
		e := recover()
		fmt.Println("inner", e)
		panic(fmt.Sprint("re-", e))
	}()
	defer fmt.Println("first deferred")
	panic(@b1)
}()
fmt.Println("not reached")`},
	{ID: "panic-values", Holes: []string{"int"}, Body: `try(func() { panic(@b1) })
try(func() { panic(fmt.Errorf("err %d", @b1)) })
try(func() { panic(P{X: @b1}) })
try(func() { panic(&MyErr{@b1}) })
try(func() { panic(Color(@b1)) })
try(func() {
	defer func() { panic("second") }()
	panic("first")
})
try(func() {
	defer func() { fmt.Println("rec:", recover()) }()
	defer func() { panic(@1 + 1) }()
	panic(@b1)
})`},
	{ID: "defer-loop-closure", Holes: []string{"[]int"}, Body: `func() {
	for n, v := range @b1 {
		defer func() { fmt.Print(n, ":", v, " ") }()
	}
	for n := 0; n < 2; n++ {
		defer func(c int) { fmt.Print(c+n, " ") }(n * 10)
	}
}()
fmt.Println()`},
	{ID: "defer-receiver", Holes: []string{"int"}, Mut: true, Body: `old := pp
func() {
	defer fmt.Println("value recv:", pv.Add(0))
	defer pp.Scale(@b1)
	g := pv.String
	defer func() { fmt.Println("bound:", g()) }()
	pv.X = 100
	pp = &P{1, 1, "swapped"}
}()
fmt.Println(pv, pp, old)`},

	// ---- functions, methods, interfaces ----
	{ID: "method-value", Holes: []string{"int"}, Mut: true, Body: `g := pv.Add
pv.X = 100
fmt.Println(g(@b1), pv.Add(@b1))
h := pp.Scale
h(@b1)
w := pp.Add
pp.X = 1000
fmt.Println(w(1), pp.Add(1))
var sh Shape = pv
k := sh.Sum
pv.Y = 500
fmt.Println(k(), pv.Sum())`},
	{ID: "method-expr", Holes: []string{"int", "int"}, Mut: true, Body: `g := P.Add
fmt.Println(g(pv, @b1), P.Sum(pv))
h := (*P).Scale
h(pp, @b2)
h(&pv, 2)
w := Shape.Sum
fmt.Println(w(pv), w(pp))
fmt.Println(P.String(pv), Color.String(Green))`},
	{ID: "method-expr-ptr-type-value-method", Holes: []string{"int"}, Body: `g := (*P).Sum
fmt.Println(g(pp), (*P).Add(pp, @b1), (*P).String(&pv))`},
	{ID: "method-auto-addr", Holes: []string{"int"}, Mut: true, Body: `pv.Scale(@b1)
fmt.Println(pp.Sum(), (*pp).Sum(), (&pv).Sum())
pp.Set(@b1).Set(@1 + 1).Scale(2)
ps := []P{pv, *pp}
ps[0].Scale(3)
ps[1].Set(@b1)
fmt.Println(ps, pv)
c := &cnt{tag: "c"}
c.bump(@b1)
fmt.Println(c.bump(1), c.show(), c.n)`},
	{ID: "interface-dispatch", Holes: []string{"P", "int"}, Mut: true, Body: `var sh Shape = @b1
fmt.Println(sh.Sum(), sh)
sh = pp
pp.X = @b2
fmt.Println(sh.Sum(), sh)
shs := []Shape{pv, pp, Q{pv, 1}, &Q{*pp, 2}}
for _, one := range shs {
	fmt.Print(one.Sum(), " ")
}
_, isP := sh.(P)
_, isPtr := sh.(*P)
fmt.Println(isP, isPtr)`},
	{ID: "interface-nil-ptr", Holes: []string{"*P"}, Body: `var sh Shape
fmt.Println(sh == nil)
ptr := @b1
sh = ptr
fmt.Println(sh == nil, ptr == nil)
try(func() { fmt.Println(sh.Sum()) })
try(func() { fmt.Println(ptr.X) })
try(func() { ptr.Scale(2); fmt.Println(ptr.Y) })`},
	{ID: "interface-nil-error", Holes: []string{"error"}, Body: `var e error = @b1
fmt.Println(e == nil, e)
var me *MyErr
mayFail := func(fail bool) error {
	if fail {
		return me
	}
	return nil
}
fmt.Println(mayFail(false) == nil, mayFail(true) == nil)
var target *MyErr
fmt.Println(errors.As(e, &target), errors.Is(e, errOdd))
try(func() { fmt.Println(e.Error()) })`},
	{ID: "variadic", Holes: []string{"int", "int"}, Body: `fmt.Println(sumOf(), sumOf(@b1), sumOf(@b1, @b2), sumOf(@b1, @b2, 3))
fmt.Println(sumOf(xs...), sumOf(xs[1:]...), sumOf([]int{@b1, @b2}...))
fmt.Println(join("-"), join("-", "u"), join("-", "u", "w"), join("-", []string{"c", "d"}...))
cnts := func(pre string, vs ...int) string { return fmt.Sprint(pre, len(vs), vs == nil) }
fmt.Println(cnts("none"), cnts("one", @b1), cnts("spread", xs...))`},
	{ID: "variadic-nil-spread", Body: `fmt.Println(sumOf(nil...), join("+", nil...))`},
	{ID: "variadic-alias", Holes: []string{"[]int"}, Mut: true, Body: `ws := @b1
setFirst(ws...)
fmt.Println(ws)
setFirst(1, 2)
setFirst()
setFirst(xs[1:]...)`},
	{ID: "higher-order", Holes: []string{"func", "int"}, Mut: true, Body: `fmt.Println(apply(@b1, @b2))
fmt.Println(apply(func(v int) int { return apply(@b1, v) + 1 }, @b2))
compose := func(g, h func(int) int) func(int) int { return func(v int) int { return g(h(v)) } }
fmt.Println(compose(@b1, inc)(@b2), compose(inc, @b1)(@b2))
var named IntFn = @b1
fmt.Println(named(@b2), IntFn(inc)(@b2))`},
	{ID: "recursion", Holes: []string{"int"}, Body: `var fib func(int) int
fib = func(n int) int {
	if n < 2 {
		return n
	}
	return fib(n-1) + fib(n-2)
}
n := @b1
if n > 15 {
	n = 15
}
fmt.Println(fib(n))
var even, odd func(int) bool
even = func(n int) bool { return n <= 0 || odd(n-1) }
odd = func(n int) bool { return n > 0 && even(n-1) }
fmt.Println(even(n), odd(n))`},
	{ID: "eval-order", Holes: []string{"int", "int"}, Body: `fmt.Println(add3(t(@b1), t(@b2), t(3)))
fmt.Println(xs[t(0)] + xs[t(1)] - xs[t(2)])
fmt.Println(t(@b1) - t(@b2), t(@b1) / t(7), t(@b1) << uint(t(1)))
fmt.Println(ts("u") + ts("w") + ts("v"))
fmt.Println([]int{t(1), t(2)}, map[string]int{ts("k"): t(3)}, P{t(4), t(5), ts("n")})
fmt.Println(adder(t(@b1))(t(@b2)), t(1) < t(2) == tb(true))`},
	{ID: "func-forms", Holes: []string{"int", "int"}, Body: `div := func(u, w int) (quo, rem int, err error) {
	if w == 0 {
		err = errors.New("div by zero")
		return
	}
	quo, rem = u/w, u%w
	return
}
fmt.Println(div(@b1, @b2))
fmt.Println(func(v int) int { return v * v }(@b1))
curry := func(u int) func(int) func(int) int {
	return func(w int) func(int) int { return func(v int) int { return u*100 + w*10 + v } }
}
fmt.Println(curry(1)(@b1)(@b2))
var nothing func()
fmt.Println(nothing == nil)`},
}

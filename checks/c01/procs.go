package main

import (
	"fmt"
	"strings"
)

// Process-level programs: one program per case, complete files (package clause included), the
// identical text is compiled as main.xgo by XGo and as main.go by Go.

type proc struct {
	ID  string
	Src string
}

func procFile(imports []string, decls, mainBody string) string {
	var sb strings.Builder
	sb.WriteString("package main\n\nimport (\n")
	for _, im := range imports {
		fmt.Fprintf(&sb, "\t%q\n", im)
	}
	sb.WriteString(")\n\n")
	if decls != "" {
		sb.WriteString(decls + "\n")
	}
	sb.WriteString("func main() {\n" + mainBody + "\n}\n")
	return sb.String()
}

const procTypes = `type T struct {
	V int
}

func (v T) String() string { return fmt.Sprintf("T<%d>", v.V) }

type MyErr struct {
	Code int
}

func (e *MyErr) Error() string { return fmt.Sprint("myerr ", e.Code) }
`

var panicValues = []struct{ id, imports, pre, val string }{
	{"string", "", "", `"boom"`},
	{"error", "errors", "", `errors.New("bad thing")`},
	{"int", "", "", `42`},
	{"stringer", "", "", `T{7}`},
	{"custom-error", "", "", `&MyErr{3}`},
	{"wrapped-error", "errors", "", `fmt.Errorf("wrapped: %w", errors.New("inner"))`},
	{"float", "", "", `3.5`},
	{"bool", "", "", `true`},
	{"sprintf", "", "", `fmt.Sprintf("value %d of %v", 3, T{4})`},
}

var runtimePanics = []struct{ id, body string }{
	{"nil-map-write", "var mm map[string]int\n\tmm[\"u\"] = 1"},
	{"index", "ws := []int{1, 2, 3}\n\tidx := 5\n\tfmt.Println(ws[idx])"},
	{"slice-bounds", "ws := []int{1, 2, 3}\n\tidx := 5\n\tfmt.Println(ws[1:idx])"},
	{"nil-deref", "var ptr *T\n\tfmt.Println(ptr.V)"},
	{"divide", "d := 0\n\tfmt.Println(7 / d)"},
	{"type-assert", "var v interface{} = \"str\"\n\tfmt.Println(v.(int))"},
	{"type-assert-iface", "var v interface{} = 1\n\tfmt.Println(v.(fmt.Stringer))"},
	{"nil-func", "var fn func()\n\tfn()"},
	{"negative-shift", "sh := -1\n\tfmt.Println(1 << sh)"},
	{"makeslice", "sz := -1\n\tfmt.Println(make([]int, sz))"},
}

var initDecls = []string{
	`var va = tr("va", 1)`,
	`var vb = tr("vb", vc+1)`,
	`var vc = tr("vc", 2)`,
	"func init() {\n\ttr(\"init\", va+vb)\n}",
	`var vd, ve = tr("vd", fd()), tr("ve", 3)`,
}

// initOrderPkg renders one permutation of the declarations as a package of its own (many such
// packages are linked into one program; every output line carries the permutation as a prefix).
func initOrderPkg(perm string) (string, error) {
	if len(perm) != len(initDecls) {
		return "", fmt.Errorf("bad permutation %q", perm)
	}
	seen := map[byte]bool{}
	var ds []string
	for n := 0; n < len(perm); n++ {
		d := perm[n] - '0'
		if int(d) >= len(initDecls) || seen[d] {
			return "", fmt.Errorf("bad permutation %q", perm)
		}
		seen[d] = true
		ds = append(ds, strings.ReplaceAll(initDecls[d], `tr("`, `tr("`+perm+`:`))
	}
	decls := strings.Join(ds, "\n\n") + `

func init() {
	tr("` + perm + `:init-last", vd)
}

func fd() int { return vc * 10 }

func tr(label string, v int) int {
	fmt.Println(label, v)
	return v
}
`
	return "package p" + perm + "\n\nimport (\n\t\"fmt\"\n)\n\n" + decls, nil
}

func permutations(items string) []string {
	if len(items) <= 1 {
		return []string{items}
	}
	var out []string
	for n := range items {
		rest := items[:n] + items[n+1:]
		for _, p := range permutations(rest) {
			out = append(out, string(items[n])+p)
		}
	}
	return out
}

const pkgLevelMisc = `var (
	ga, gb = two()
	table  = map[string]int{"u": ga, "w": gb}
	hook   = func() int { return counter * 2 }
	list   = []Item{{"first", 1}, {"second", weight}}
)

const (
	weight = iota + 5
	heavy
)

var counter = len(list) + heavy

type Item struct {
	Label string
	Cost  int
}

func (it Item) Describe() string { return it.Label + "/" + fmt.Sprint(it.Cost) }

func two() (int, int) {
	fmt.Println("two() called")
	return 3, 4
}

func init() {
	fmt.Println("init 1", ga, gb, counter)
	counter++
}

func init() {
	fmt.Println("init 2", counter, hook())
}

var late = announce("late")

func announce(v string) string {
	fmt.Println("announce", v)
	return v
}

func init() {
	fmt.Println("init 3", late, table, list[1].Describe())
}
`

// procs returns the process-level programs of a tier, simplest first.
func procs(thorough bool) []proc {
	var out []proc
	for _, ec := range []int{0, 1, 3} {
		out = append(out, proc{fmt.Sprintf("os-exit/%d", ec), procFile([]string{"fmt", "os"}, "",
			fmt.Sprintf("\tdefer fmt.Println(\"deferred: must not run\")\n\tfmt.Println(\"before exit\")\n\tos.Exit(%d)", ec))})
	}
	out = append(out, proc{"os-exit/in-nested-call", procFile([]string{"fmt", "os"},
		"func leave(status int) {\n\tdefer fmt.Println(\"deferred in leave: must not run\")\n\tos.Exit(status)\n}\n",
		"\tfmt.Println(\"before\")\n\tleave(3)\n\tfmt.Println(\"not reached\")")})
	out = append(out, proc{"os-exit/in-deferred-while-panicking", procFile([]string{"fmt", "os"}, "",
		"\tdefer os.Exit(3)\n\tfmt.Println(\"before\")\n\tpanic(\"swallowed by exit\")")})
	out = append(out, proc{"normal-return/stdout-and-stderr", procFile([]string{"fmt", "os"}, "",
		"\tfmt.Println(\"to stdout\")\n\tfmt.Fprintln(os.Stderr, \"to stderr\")")})
	for _, pv := range panicValues {
		ims := []string{"fmt"}
		if pv.imports != "" {
			ims = []string{pv.imports, "fmt"}
		}
		out = append(out, proc{"uncaught-panic/" + pv.id, procFile(ims, procTypes,
			"\tdefer fmt.Println(\"deferred runs\")\n\tfmt.Println(\"before\")\n\tpanic("+pv.val+")")})
	}
	for _, rp := range runtimePanics {
		out = append(out, proc{"uncaught-runtime-error/" + rp.id, procFile([]string{"fmt"}, procTypes,
			"\tdefer fmt.Println(\"deferred runs\")\n\tfmt.Println(\"before\")\n\t"+rp.body)})
	}
	out = append(out, proc{"uncaught-panic/repanic-after-recover", procFile([]string{"fmt"}, "",
		"\tdefer func() {\n\t\te := recover()\n\t\tfmt.Println(\"recovered\", e)\n\t\tpanic(fmt.Sprint(\"again: \", e))\n\t}()\n\tpanic(\"first\")")})
	out = append(out, proc{"uncaught-panic/panic-in-deferred", procFile([]string{"fmt"}, "",
		"\tdefer func() {\n\t\tpanic(\"second\")\n\t}()\n\tfmt.Println(\"before\")\n\tpanic(\"first\")")})
	out = append(out, proc{"uncaught-panic/in-init", procFile([]string{"fmt"},
		"func init() {\n\tfmt.Println(\"init\")\n\tpanic(\"from init\")\n}\n", "\tfmt.Println(\"main: not reached\")")})
	out = append(out, proc{"uncaught-panic/in-package-var", procFile([]string{"fmt"},
		"var gv = fail()\n\nfunc fail() int {\n\tfmt.Println(\"initialising gv\")\n\tpanic(fmt.Errorf(\"no value\"))\n}\n", "\tfmt.Println(\"main: not reached\", gv)")})
	out = append(out, proc{"package-level/misc", procFile([]string{"fmt"}, pkgLevelMisc,
		"\tfmt.Println(\"main\", counter, hook(), weight, heavy, late)")})
	return out
}

// initPerms: the permutations of the five declarations evaluated by a tier, in lexicographic order.
func initPerms(thorough bool) []string {
	var out []string
	for _, p := range permutations("01234") {
		if thorough || p[0] == '0' {
			out = append(out, p)
		}
	}
	return out
}

func procByID(id string) (proc, error) {
	for _, p := range procs(false) {
		if p.ID == id {
			return p, nil
		}
	}
	return proc{}, fmt.Errorf("unknown process-level program %q", id)
}

package main

var imports = []string{"errors", "math", "runtime", "sort", "strconv", "strings"}

// prelude: shared declarations, the same text for the XGo and for the Go program.
const prelude = `type P struct {
	X, Y int
	Name string
}

func (v P) Sum() int       { return v.X + v.Y }
func (v P) Add(d int) int  { return v.X + d }
func (v P) String() string { return fmt.Sprintf("P(%d,%d,%q)", v.X, v.Y, v.Name) }
func (v *P) Scale(d int) {
	v.X *= d
	v.Y *= d
}
func (v *P) Set(d int) *P {
	v.X = d
	return v
}

type Shape interface {
	Sum() int
}

type Q struct {
	P
	Z int
}

type R struct {
	P
	X string
}

type cnt struct {
	n   int
	tag string
}

func (c *cnt) bump(d int) int {
	c.n += d
	return c.n
}
func (c cnt) show() string { return c.tag + "=" + strconv.Itoa(c.n) }

type MyErr struct {
	Code int
}

func (e *MyErr) Error() string { return fmt.Sprint("myerr ", e.Code) }

var errOdd = errors.New("odd")

type IntList []int

func (l IntList) Total() int {
	acc := 0
	for _, v := range l {
		acc += v
	}
	return acc
}

type Color int

const (
	Red Color = iota + 1
	Green
	Blue
)

func (c Color) String() string {
	switch c {
	case Red:
		return "Red"
	case Green:
		return "Green"
	case Blue:
		return "Blue"
	}
	return "Color(" + strconv.Itoa(int(c)) + ")"
}

type IntFn func(int) int

func apply(fn func(int) int, v int) int { return fn(v) }
func inc(v int) int                     { return v + 1 }
func adder(d int) func(int) int         { return func(v int) int { return v + d } }
func mkP(u, w int) P                    { return P{X: u, Y: w, Name: "mk"} }
func half(v int) (int, error) {
	if v%2 != 0 {
		return 0, errOdd
	}
	return v / 2, nil
}
func pair(u, w int) (int, int) { return u + w, u - w }
func add2(u, w int) int        { return u*10 + w }
func add3(u, w, z int) int     { return u*100 + w*10 + z }
func sumOf(vs ...int) int {
	acc := 0
	for _, v := range vs {
		acc += v
	}
	return acc
}
func setFirst(vs ...int) {
	if len(vs) > 0 {
		vs[0] = 42
	}
}
func join(sep string, vs ...string) string { return strings.Join(vs, sep) }
func t(v int) int {
	fmt.Print("t", v, " ")
	return v
}
func ts(v string) string {
	fmt.Print("ts(", v, ") ")
	return v
}
func tb(v bool) bool {
	fmt.Print("tb(", v, ") ")
	return v
}
func try(fn func()) {
	defer func() {
		if e := recover(); e != nil {
			if re, ok := e.(runtime.Error); ok {
				fmt.Println("runtime error caught:", re.Error())
			} else {
				fmt.Printf("caught: %v (%T)\n", e, e)
			}
		}
	}()
	fn()
}
func keys(mm map[string]int) []string {
	acc := make([]string, 0, len(mm))
	for key := range mm {
		acc = append(acc, key)
	}
	sort.Strings(acc)
	return acc
}
func dump(i, j int, b bool, s string, f float64, xs []int, m map[string]int, pv P, pp *P) {
	fmt.Println("env:", i, j, b, s, f, xs, len(xs), m, len(m), pv, *pp)
}

var _ = math.MaxInt8
`

package main

var templatesC = []*tmpl{
	// ---- arrays, slices, structs, maps ----
	{ID: "array-vs-slice-copy", Holes: []string{"int", "int"}, Body: `arr := [3]int{@b1, 2, 3}
brr := arr
brr[0] = 9
sl := arr[:]
sl[1] = @b2
fa := func(c [3]int) { c[0] = 77 }
fs := func(c []int) { c[2] = 88 }
fa(arr)
fs(arr[:])
parr := &arr
parr[0]++
fmt.Println(arr, brr, sl, arr == brr, len(arr), *parr)
var grid [2][2]int
grid[1][0] = @b1
g2 := grid
g2[1][0]++
fmt.Println(grid, g2, grid != g2)`},
	{ID: "struct-copy-compare", Holes: []string{"P"}, Body: `u := @b1
c := u
c.X++
fmt.Println(u == c, u, c)
c.X--
fmt.Println(u == c, u != c)
pu := &u
pu.Y = 50
(*pu).Name = "via-ptr"
fmt.Println(u, c, *pu == u)
byVal := func(v P) { v.X = -1 }
byPtr := func(v *P) { v.X = -1 }
byVal(u)
fmt.Print(u.X, " ")
byPtr(&u)
fmt.Println(u.X)`},
	{ID: "slice-alias-append", Holes: []string{"[]int"}, Mut: true, Body: `ws := @b1
vs := append(ws, 1)
if len(ws) > 0 {
	ws[0] = 50
}
fmt.Println(ws, len(ws), len(vs), vs[len(vs)-1])
us := xs[:1]
us = append(us, 60)
fmt.Println(us, len(us))
cl := xs[0:1:1]
cl = append(cl, 70)
cl[0] = 71
fmt.Println(cl, len(cl))`},
	{ID: "slice-exprs", Holes: []string{"[]int", "int"}, Body: `ws := @b1
n := @b2
try(func() { fmt.Println(ws[n:]) })
try(func() { fmt.Println(ws[:n]) })
try(func() { fmt.Println(ws[1:n]) })
try(func() { fmt.Println(ws[n]) })
try(func() { fmt.Println(ws[n:n], len(ws[n:n])) })
try(func() { fmt.Println(ws[0:1:n]) })`},
	{ID: "copy-builtin", Holes: []string{"int!", "[]int"}, Body: `dst := make([]int, @b1)
n := copy(dst, @b2)
fmt.Println(n, dst, len(dst))
ws := []int{1, 2, 3, 4}
fmt.Println(copy(ws, ws[1:]), ws)
fmt.Println(copy(ws[1:], ws), ws)
bs := make([]byte, 3)
fmt.Println(copy(bs, "héllo"), bs)`},
	{ID: "slice-2d", Holes: []string{"int", "int"}, Body: `grid := [][]int{{1, 2}, {3, @b1}}
grid[1] = append(grid[1], @b2)
grid = append(grid, nil, []int{})
for n, row := range grid {
	fmt.Print(n, row, len(row), row == nil, " ")
}
fmt.Println()
tri := make([][]string, 3)
for n := range tri {
	tri[n] = make([]string, n+1)
	for c := range tri[n] {
		tri[n][c] = strconv.Itoa(n * c)
	}
}
fmt.Println(tri)`},
	{ID: "map-ops", Holes: []string{"map", "int"}, Mut: true, Body: `mm := @b1
v, ok := mm["a"]
fmt.Println(v, ok, mm["zz"], len(mm))
delete(mm, "a")
delete(mm, "never")
_, ok = mm["a"]
fmt.Println(ok, len(mm), mm == nil)
if v2, found := mm["b"]; found {
	fmt.Println("b", v2)
}
mm["n"] = @b2
mm["n"]++
fmt.Println(mm, len(mm))`},
	{ID: "map-composite-keys", Holes: []string{"P", "int"}, Body: `ms := map[P][]int{}
ms[@b1] = append(ms[@b1], @b2)
ms[@b1] = append(ms[@b1], 2)
ms[P{}] = nil
fmt.Println(len(ms), ms[@b1], ms[P{X: 99}] == nil)
ma := map[[2]int]string{{1, 2}: "u", {@b2, 0}: "w"}
fmt.Println(ma[[2]int{1, 2}], ma[[2]int{@b2, 0}], len(ma))
mi := map[interface{}]int{1: 1, "1": 2, 1.0: 3, P{}: 4}
fmt.Println(mi[1], mi["1"], mi[1.0], mi[P{}], mi[int8(1)])
counts := map[rune]int{}
for _, c := range "hello" {
	counts[c]++
}
fmt.Println(counts['l'], counts['h'], counts['?'])`},
	{ID: "map-of-struct", Holes: []string{"int"}, Body: `mp := map[string]*P{"u": {1, 2, "u"}, "w": {X: @b1}}
mp["u"].X += @b1
mp["w"].Scale(2)
mv := map[string]P{"u": {1, 2, "u"}}
tmp := mv["u"]
tmp.X = @b1
mv["u"] = tmp
fmt.Println(*mp["u"], *mp["w"], mv, mv["none"].Sum(), mp["none"] == nil)`},

	// ---- strings, runes, bytes ----
	{ID: "string-conv", Holes: []string{"string"}, Body: `w := @b1
bs := []byte(w)
rs := []rune(w)
fmt.Println(len(w), len(bs), len(rs))
if len(bs) > 0 {
	bs[0] = 'X'
	rs[len(rs)-1] = '世'
}
fmt.Println(string(bs), w, string(rs))
for n := 0; n < len(w) && n < 4; n++ {
	fmt.Print(w[n], " ")
}
fmt.Printf("%q %x %v\n", w, w, []byte(w))
try(func() { fmt.Println(w[0], w[len(w)-1]) })
try(func() { fmt.Println(w[1:], w[:1]) })`},
	{ID: "string-compare", Holes: []string{"string", "string"}, Body: `u, w := @b1, @b2
fmt.Println(u < w, u == w, u >= w, u+w == w+u, strings.Contains(u, w), strings.Index(w, u))
fmt.Println(len(u+w), strings.Compare(u, w), strings.HasPrefix(u+w, u))`},
	{ID: "rune-byte-arith", Holes: []string{"int!"}, Body: `c := 'a' + rune(@b1)
var d byte = 'x'
d += byte(@b1)
e := byte('0' + @1%10)
fmt.Println(c, string(c), d, e, 'a' < c, "lit"[1], "lit"[1] == 'i')
fmt.Printf("%c %U %d %q\n", c, c, d, c)
fmt.Println(string(rune(@1 + 0x4e16)), strconv.Itoa(@b1), strconv.Quote(string(rune(@b1))))`},
	{ID: "string-escapes", Body: "fmt.Println(\"tab\\there\", \"nl\\\\n\", \"q\\\"q\", 'a', '\\n', '\\'', \"\\u00e9\\U0001F600\", \"\\x41\\101\", `raw\\n\"x\"`, len(`a\nb`))\nfmt.Println(`multi\nline`, \"é\"[0], len(\"é\"), \"a\"+`b`+\"c\")"},

	// ---- constants ----
	{ID: "const-iota", Holes: []string{"int!"}, Body: `const (
	ka = iota * 10
	kb
	_
	kd
	ke = 1 << iota
	kf
)
type Level int
const (
	low Level = iota + 1
	mid
	high
)
const (
	c0, c1 = iota, iota * 2
	c2, c3
)
const big = 1 << 40
const ratio = big / 3.0
const tiny int8 = 100
const msg = "con" + "cat"
fmt.Println(ka, kb, kd, ke, kf, low, mid, high, c0, c1, c2, c3)
fmt.Println(big>>38, ratio, tiny+int8(@b1), msg, len(msg), high*Level(@b1))
fmt.Printf("%T %T %T %T\n", ka, low, ratio, tiny)`},
	{ID: "const-untyped-arith", Holes: []string{"int", "float"}, Body: `const h = 5
var fa float64 = 1 / 2
var fb float64 = 1 / 2.0
var fc = 10 / 4 * 2.5
var fd = 2.5 * 10 / 4
fmt.Println(h/2, h/2.0, 1/2*3.0, 7%3, -7/2, -7%3, 1<<3+1, fa, fb, fc, fd)
fmt.Println(@1+h/2, @2*h/2, 3/2*@2, @2+1/2, float64(@b1)/2, @1/2*2)
const huge = 1 << 100
fmt.Println(huge>>98, huge/(huge>>3), 'a'+1, 'a'*2, "s"+"t", 0.1+0.2, float32(0.1), 1e3, 0x10+010+0b11+0o7, 1_000)
var u8 uint8 = 255
var i64 int64 = 1 << 62
fmt.Println(u8+1, i64*2, uint64(1<<63), math.MaxInt64, math.MinInt64, math.MaxUint32, math.Pi)
fmt.Printf("%T %T %T %T %v\n", 'a'+1, 1+2.0, h, 1<<3, 5.0/2)`},
	{ID: "shifts", Holes: []string{"int", "int!"}, Body: `u := @b1
fmt.Println(u<<2, u>>1, -u>>1, u<<62, uint32(u)<<31, int64(1)<<40)
var u8 uint8 = 1
fmt.Println(u8<<7, u8<<8, u8<<7>>7, uint8(200)>>3, int8(-128)>>2)
n := @b2
try(func() { fmt.Println(1<<n, u<<n, u>>n, 1<<uint(n&15)) })
var sh uint = 3
fmt.Println(1<<sh, uint16(1)<<sh<<12, 1.0*float64(int(1)<<sh))`},
	{ID: "wraparound", Holes: []string{"int!", "int!"}, Body: `var c int8 = 127
c++
var d uint8 = 0
d--
var e uint = 0
e--
fmt.Println(c, d, e == math.MaxUint, e+1)
fmt.Println(int8(@b1)*int8(@b2)*25, uint8(@b1)+200, uint8(@b1)-uint8(@b2), uint16(@b1)*uint16(40000))
var g int32 = math.MaxInt32
g += int32(@b2)
var h int64 = math.MinInt64
h -= int64(@b1)
fmt.Println(g, h, -h, uint32(@b1), int8(@1+126), uint(@b1)>>60)`},
	{ID: "div-mod-signs", Holes: []string{"int", "int"}, Body: `u, d := @b1, @b2
try(func() { fmt.Println(u/d, u%d, -u/d, u%-d, -u%d, (u/d)*d+u%d == u) })
try(func() { fmt.Println(uint(u)/uint(d) > 0, int8(u)/int8(d), int8(-128)/int8(d)) })
fmt.Println(7/2, -7/2, 7/-2, -7/-2, 7%2, -7%2, 7%-2, -7%-2)`},
	{ID: "float-format", Holes: []string{"float"}, Body: `v := @b1
fmt.Println(v, v*3, v/3, -v, v*v)
fmt.Printf("%.2f %g %e %v %6.1f|%08.3f|%+.1f\n", v, v, v, v, v, v, v)
fmt.Println(int(v), int64(v*100), float32(v), float32(v)/3, math.Floor(v), math.Round(v*10)/10)
zero := v - v
fmt.Println(v/zero, -v/zero, zero/zero == zero/zero, math.IsNaN(zero/zero), v > zero, strconv.FormatFloat(v, 'f', -1, 64))`},
	{ID: "conversions", Holes: []string{"int!"}, Body: `u := @b1
fl := float64(u) / 4
fmt.Println(fl, int(fl), int(-fl), int64(u), uint32(u), uint8(u), int8(u*50), float32(u)/3)
fmt.Println(string(rune(u+65)), strconv.Itoa(u), Color(u), Color(u%3+1), IntList{u, u}.Total(), IntFn(inc)(u))
nv := -2.7
fmt.Println(int(nv), int(-nv), uint8(int(nv)), []byte("hi"), []rune("hi"), string([]byte{104, 105}), string([]rune{104, 0x4e16}))`},

	// ---- struct forms ----
	{ID: "anon-struct", Holes: []string{"int", "string"}, Body: `pt := struct {
	Aa int
	Bb string
}{@b1, @b2}
cp := pt
cp.Aa++
fmt.Println(pt, cp, pt == cp, cp.Bb == pt.Bb)
fmt.Printf("%v %+v\n", pt, cp)
arr := []struct {
	Kk string
	Vv int
}{{"u", 1}, {@b2, @b1}}
for _, e := range arr {
	fmt.Print(e.Kk, "=", e.Vv, " ")
}
var empty struct{}
nested := struct {
	Inner struct{ Vv int }
	Ptr   *struct{ Ww string }
}{}
nested.Inner.Vv = @b1
fmt.Println(empty, nested.Inner, nested.Ptr == nil)
lower := struct{ lo, hi int }{1, @b1}
fmt.Println(lower.lo+lower.hi, lower)`},
	{ID: "embedded-promotion", Holes: []string{"P", "int"}, Body: `em := Q{P: @b1, Z: @b2}
fmt.Println(em.X, em.P.X, em.Sum(), em.Z, em)
em.Scale(2)
em.X++
em.P.Y--
fmt.Println(em.P, em.Add(1), em.String())
var sh Shape = em
var st fmt.Stringer = &em
fmt.Println(sh.Sum(), st)
sd := R{P: @b1, X: "shadow"}
fmt.Println(sd.X, sd.P.X, sd.Y, sd.Sum())
type Deep struct {
	*Q
	Extra int
}
dp := Deep{&em, @b2}
dp.X = 77
fmt.Println(dp.Sum(), em.X, dp.Extra, dp.Q.P.Name == dp.Name)`},
	{ID: "struct-literal-forms", Holes: []string{"int", "string"}, Body: `u := P{@b1, 2, @b2}
w := P{Name: @b2, X: @b1}
v := &P{Y: @b1}
var zero P
ps := []P{{1, 2, "u"}, {X: @b1}}
pps := []*P{{1, 2, "u"}, {Name: @b2}}
mp := map[string]P{"k": {Y: @b1}}
fmt.Println(u, w, *v, zero, ps, *pps[0], *pps[1], mp, u == w, zero == P{})
qq := Q{P{1, 2, "in"}, 3}
qk := Q{P: P{X: @b1}, Z: 4}
fmt.Println(qq, qk, qq.P == qk.P)`},
	{ID: "array-forms", Holes: []string{"int"}, Body: `arr := [...]int{1, @b1, 3}
idx := [5]int{1: 10, 3: @b1}
two := [2][3]int{{1, 2, 3}, {4, @b1}}
sidx := []string{2: "c", 0: "u"}
fmt.Println(arr, len(arr), idx, two, len(two[0]), sidx, len(sidx))
fmt.Println(arr == [3]int{1, @b1, 3}, arr != [...]int{3, 2, 1}, [0]int{} == [0]int{})
var parr *[3]int = &arr
for n := range parr {
	parr[n] *= 2
}
fmt.Println(arr, len(parr), parr[1:])`},

	// ---- pointers ----
	{ID: "pointers", Holes: []string{"int", "int"}, Mut: true, Body: `u := @b1
pu := &u
*pu += @b2
ppu := &pu
**ppu *= 2
fmt.Println(u, *pu == u, pu == *ppu)
np := new(int)
*np = @b2
*np++
pi := &i
*pi -= @b2
pxs := &xs[1]
*pxs = @b1
alias := pp
alias.X = @b1
fmt.Println(*np, pp.X, pp == alias)
swap := func(c, d *int) { *c, *d = *d, *c }
swap(&i, &j)
swap(&xs[0], &pv.X)`},

	// ---- recovered runtime panics ----
	{ID: "runtime-panic-index", Holes: []string{"int"}, Body: `n := @b1
arr := [3]int{1, 2, 3}
try(func() { fmt.Println(xs[n]) })
try(func() { xs[n] = 1 })
try(func() { fmt.Println(arr[n%5]) })
try(func() { fmt.Println(s[n]) })
try(func() { fmt.Println(xs[1:n]) })
try(func() { fmt.Println(s[n:]) })
try(func() { fmt.Println(xs[n:1]) })
try(func() { fmt.Println(make([]int, n)) })
try(func() { var e []int; fmt.Println(e[n]) })`},
	{ID: "runtime-panic-nil", Holes: []string{"int"}, Body: `var nm map[string]int
var np *P
var nf func(int) int
var ne error
var ns Shape
var nsl []int
fmt.Println(nm["u"], len(nm), nsl == nil, len(nsl))
try(func() { nm["u"] = @b1 })
try(func() { fmt.Println(np.X) })
try(func() { np.Y = @b1 })
try(func() { fmt.Println(np.Sum()) })
try(func() { fmt.Println(nf(@b1)) })
try(func() { fmt.Println(ne.Error()) })
try(func() { fmt.Println(ns.Sum()) })
try(func() { nsl[0] = @b1 })
try(func() { var pa *[3]int; fmt.Println(pa[@1%3]) })
nsl = append(nsl, @b1)
fmt.Println(nsl)`},
	{ID: "runtime-panic-div", Holes: []string{"int", "int"}, Body: `u, d := @b1, @b2
try(func() { fmt.Println(u / (d - d)) })
try(func() { fmt.Println(u % (d - d)) })
try(func() { d2 := d - @2; u /= d2 })
try(func() { fmt.Println(float64(u) / float64(d-d)) })
try(func() { fmt.Println(uint8(u) / uint8(d-d)) })`},
	{ID: "runtime-panic-custom", Holes: []string{"string", "int"}, Body: `try(func() { panic(@b1) })
try(func() { panic(errors.New(@b1)) })
try(func() { panic(fmt.Sprintf("%s-%d", @b1, @b2)) })
try(func() {
	defer func() {
		e := recover()
		err, isErr := e.(error)
		_, isRt := e.(runtime.Error)
		fmt.Println(isErr, isRt, err)
	}()
	fmt.Println(xs[@2+3])
})
try(func() {
	var v interface{} = @b1
	fmt.Println(v.(int))
})`},
	{ID: "local-types", Holes: []string{"int"}, Body: `type Celsius float64
type Temp = Celsius
type pairT struct{ lo, hi int }
type stack []int
var tc Temp = Celsius(@b1) * 1.5
fmt.Printf("%v %T %v\n", tc, tc, float64(tc) == float64(@b1)*1.5)
pr := pairT{@b1, 2}
st := stack{1}
st = append(st, pr.lo, pr.hi)
fmt.Println(pr, st, len(st))`},
	{ID: "goto-loop-mix", Holes: []string{"int"}, Body: `n, g := 0, 0
top#:
for n < 6 {
	n++
	g++
	if g > 20 {
		break
	}
	switch {
	case n == @1:
		continue top#
	case n == @1+2:
		goto out#
	}
	fmt.Print(n, " ")
}
out#:
fmt.Println("n", n)`},
}

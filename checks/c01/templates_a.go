package main

// Statement templates, simplest first. Identifiers avoid x, y, z, p, q, r, name, sum, ... whose
// capitalised twins are declared by the prelude (excluded deviation: auto-capitalised lookup).

var templatesA = []*tmpl{
	// ---- assignment forms ----
	{ID: "define-var", Holes: []string{"int"}, Body: `u := @b1
var w int = @b1
var v = @1 + 1
var (
	c, d = u, w
	e    int
)
e = c + d + v
fmt.Println(u, w, v, c, d, e)`},
	{ID: "define-string", Holes: []string{"string"}, Body: `u := @b1
var w string = @b1
var v = @1 + "!"
fmt.Println(u, w, v, len(u), u == w, u < v)`},
	{ID: "define-bool", Holes: []string{"bool"}, Body: `u := @b1
var w bool = !@1
fmt.Println(u, w, u != w, u == @1)`},
	{ID: "define-float", Holes: []string{"float"}, Body: `u := @b1
var w float64 = @1 * 2
fmt.Println(u, w, u < w, int(u), u+w, u/3)
fmt.Printf("%.3f %g %e %8.2f|%-8.1f|%v\n", u, w, u, w, u, float32(u))`},
	{ID: "swap", Holes: []string{"int", "int"}, Mut: true, Body: `u, w := @b1, @b2
u, w = w, u
i, j = j, i
xs[0], xs[2] = xs[2], xs[0]
fmt.Println(u, w)`},
	{ID: "redeclare", Holes: []string{"int", "int"}, Body: `u, w := @b1, 1
u, v := u+@2, w+1
w, c := v, u
fmt.Println(u, w, v, c)`},
	{ID: "opassign-arith", Holes: []string{"int", "int"}, Mut: true, Body: `u := @b1
u += @b2
fmt.Print(u, " ")
u -= @b2
u -= @b2
fmt.Print(u, " ")
u *= @b2
fmt.Print(u, " ")
i -= u
j -= @b2
d := @b2
u /= d
fmt.Print(u, " ")
u = @1 - 100
u %= d
fmt.Println(u)`},
	{ID: "opassign-bits", Holes: []string{"int", "int"}, Mut: true, Body: `u := @b1
u &= @b2
fmt.Print(u, " ")
u = @b1
u |= @b2
fmt.Print(u, " ")
u ^= @b2
fmt.Print(u, " ")
u = @b1
u &^= @b2
fmt.Print(u, " ")
u <<= 3
fmt.Print(u, " ")
u >>= 1
i <<= 2
j >>= 1
fmt.Println(u)`},
	{ID: "opassign-string", Holes: []string{"string", "string"}, Mut: true, Body: `u := @b1
u += @b2
u += u
s += @b2
fmt.Println(u, len(u))`},
	{ID: "opassign-float", Holes: []string{"float", "float"}, Mut: true, Body: `u := @b1
u += @b2
fmt.Print(u, " ")
u -= @b2
u -= @b2
fmt.Print(u, " ")
u *= @b2
fmt.Print(u, " ")
d := @b2
u /= d
f -= @b2
fmt.Println(u)`},
	{ID: "opassign-target-once", Holes: []string{"int"}, Mut: true, Body: `xs[t(1)] += @b1
xs[t(0)] -= @b1
m[ts("a")] -= @b1
m[ts("n")] += @b1
pp.X *= @b1
pp.Set(4).Y -= @b1
pv.Y -= @b1
fmt.Println(xs, m)`},
	{ID: "incdec", Holes: []string{"int"}, Mut: true, Body: `u := @b1
u++
u++
u--
xs[t(0)]++
xs[t(2)]--
m["a"]--
m["fresh"]++
pp.Y++
pv.X--
i++
j--
fmt.Println(u)`},
	{ID: "multi-assign-order", Holes: []string{"int"}, Mut: true, Body: `n := @b1
ws := []int{10, 20, 30, 40, 50, 60, 70, 80}
if n < 0 || n > 6 {
	n = 0
}
n, ws[n] = n+1, 99
fmt.Println(n, ws)
n, ws[n] = ws[n], n
fmt.Println(n, ws)
i, xs[0] = xs[0], i`},
	{ID: "multi-assign-traced", Holes: []string{"int", "int"}, Mut: true, Body: `u, w := t(@b1), t(@b2)
fmt.Println()
xs[t(0)], xs[t(1)] = t(u), t(w)
fmt.Println()
m[ts("k")], pp.X = t(w), t(u)
fmt.Println()`},
	{ID: "multi-return", Holes: []string{"int", "int"}, Body: `h, err := half(@b1)
fmt.Println(h, err)
h2, _ := half(@b2)
_, e2 := half(h2)
fmt.Println(h2, e2, e2 == errOdd, err == nil)
u, w := pair(@b1, @b2)
w, u = pair(u, w)
fmt.Println(u, w)`},
	{ID: "multi-return-pass", Holes: []string{"int", "int"}, Body: `fmt.Println(half(@b1))
fmt.Println(add2(pair(@b1, @b2)))
fmt.Println(sumOf(pair(@b2, @b1)))
g := func() (int, string, bool) { return @b1, "w", @1 > @2 }
c, d, e := g()
fmt.Println(c, d, e)`},
	{ID: "blank-assign", Holes: []string{"int", "int"}, Body: `_ = t(@b1)
_, w := t(1), t(@b2)
var _ = t(3)
var _, v = t(4), t(w)
fmt.Println(w, v)`},

	// ---- if ----
	{ID: "if-else-chain", Holes: []string{"int"}, Body: `if u := @b1; u < 0 {
	fmt.Println("neg", u)
} else if w := u * 2; w > 8 {
	fmt.Println("big", u, w)
} else if u == 0 {
	fmt.Println("zero", w)
} else {
	fmt.Println("small", u, w)
}`},
	{ID: "if-bool", Holes: []string{"bool", "bool"}, Body: `if @b1 {
	fmt.Print("A ")
} else {
	fmt.Print("B ")
}
if v := @b2; !v {
	fmt.Print("C ")
} else if @b1 && v {
	fmt.Print("D ")
}
if @1 && @2 {
	fmt.Print("and ")
}
if @1 || @2 {
	fmt.Print("or ")
}
if !(@b1) != @2 {
	fmt.Print("xor")
}
fmt.Println()`},
	{ID: "short-circuit", Holes: []string{"bool", "bool"}, Body: `c := tb(@b1) && tb(@b2) || tb(!@1)
fmt.Println(c)
d := tb(@b1) || tb(@b2) && tb(!@2)
fmt.Println(d)
e := !(tb(@b2) || tb(@b1)) && tb(true)
fmt.Println(e)
if tb(@b1) && t(1) > 0 || t(2) > 0 && tb(@b2) {
	fmt.Print("taken")
}
fmt.Println()`},
	{ID: "if-init-call", Holes: []string{"int"}, Body: `if h, err := half(@b1); err != nil {
	fmt.Println("error:", err, h)
} else if h2, err := half(h); err == nil {
	fmt.Println("quarter", h2)
} else {
	fmt.Println("half", h, err)
}`},
	{ID: "shadow-blocks", Holes: []string{"int"}, Mut: true, Body: `u := @b1
{
	u := u + 1
	{
		u := u * 2
		i := u
		fmt.Print(u, i, " ")
	}
	u++
	fmt.Print(u, " ")
}
if u := u - 1; u > 0 {
	u := "str"
	fmt.Print(u, " ")
} else {
	u = 50
	fmt.Print(u, " ")
}
for u := 0; u < 2; u++ {
	u := u * 10
	fmt.Print(u, " ")
}
i += u
fmt.Println(u)`},

	// ---- for ----
	{ID: "for-3clause", Holes: []string{"int"}, Body: `for n := 0; n < @1 && n < 6; n++ {
	fmt.Print(n, " ")
}
for n, c := @b1, 0; n > 0 && c < 6; n, c = n-2, c+1 {
	fmt.Print(n, c, ";")
}
fmt.Println()`},
	// the post statement of a three-clause loop in every simple-statement form, its last operand an identifier,
	// an index, a selector, a binary expression, a call (what precedes the body's brace varies)
	{ID: "for-post-forms", Holes: []string{"int"}, Body: `stp := 2
for n := 0; n < @1 && n < 9; n += stp {
	fmt.Print(n, " ")
}
nxt := []int{1, 2, 3, 3}
for n := 0; n < 3; n = nxt[n] {
	fmt.Print(n, " ")
}
for a, b, g := 0, 1, 0; g < 6; a, b, g = b, a+b, g+1 {
	fmt.Print(a, " ")
}
type node struct {
	nx *node
	v  int
}
l := &node{&node{nil, 2}, 1}
for c := l; c != nil; c = c.nx {
	fmt.Print(c.v, " ")
}
for n := 1; n < 40; n = inc(n) + n + stp {
	fmt.Print(n, " ")
}
for n, lim := 0, @b1; n < lim && n < 5; n -= -stp {
	fmt.Print(n, " ")
}
fmt.Println()`},
	{ID: "for-cond", Holes: []string{"int"}, Body: `n, g := @b1, 0
for n > 0 && g < 8 {
	n /= 2
	g++
	fmt.Print(n, " ")
}
fmt.Println(g)`},
	{ID: "for-infinite", Holes: []string{"int", "int"}, Body: `n, g := @b1, 0
for {
	g++
	if n >= @2 || g > 8 {
		break
	}
	n++
	if n%2 == 0 {
		continue
	}
	fmt.Print(n, " ")
}
fmt.Println(n, g)`},
	{ID: "for-post-continue", Holes: []string{"int"}, Body: `for n := 0; n < 6; n++ {
	if n == @1 {
		continue
	}
	if n > @1+2 {
		break
	}
	fmt.Print(n, " ")
}
fmt.Println()`},
	{ID: "range-slice", Holes: []string{"[]int"}, Body: `for n, v := range @b1 {
	fmt.Print(n, ":", v, " ")
}
for n := range @b1 {
	fmt.Print(n, " ")
}
for _, v := range @b1 {
	fmt.Print(v, " ")
}
g := 0
for range @b1 {
	g++
}
fmt.Println(g)`},
	{ID: "range-slice-once", Holes: []string{"[]int"}, Body: `ws := append([]int(nil), @b1...)
for n, v := range ws {
	if n == 0 && len(ws) > 1 {
		ws[1] = 99
	}
	if len(ws) < 12 {
		ws = append(ws, v)
	}
	fmt.Print(v, " ")
}
fmt.Println(ws)`},
	{ID: "range-assign-existing", Holes: []string{"[]int"}, Mut: true, Body: `var n, v int
for n, v = range @b1 {
}
fmt.Println(n, v)
for i, j = range @b1 {
	if i == 1 {
		break
	}
}
for n, xs[0] = range @b1 {
}
var ps P
for ps.X, ps.Y = range @b1 {
}
fmt.Println(ps)`},
	{ID: "range-string", Holes: []string{"string"}, Body: `for n, c := range @b1 {
	fmt.Print(n, ":", c, ":", string(c), " ")
}
for n := range @b1 {
	fmt.Print(n, " ")
}
for _, c := range @1 + "é\xffz" {
	fmt.Printf("%c%d %T ", c, c, c)
}
fmt.Println()`},
	{ID: "range-array", Holes: []string{"int", "int"}, Body: `arr := [3]int{@b1, @b2, 7}
for n, v := range arr {
	arr[2] = 100
	fmt.Print(n, ":", v, " ")
}
arr[2] = 7
for n, v := range &arr {
	arr[2] = 100
	fmt.Print(n, ":", v, " ")
}
for n := range arr {
	fmt.Print(n)
}
fmt.Println(arr, len(arr))`},
	{ID: "range-map-sorted", Holes: []string{"map"}, Body: `mm := @b1
ks := make([]string, 0)
for key := range mm {
	ks = append(ks, key)
}
sort.Strings(ks)
for _, key := range ks {
	fmt.Print(key, "=", mm[key], " ")
}
tot := 0
for _, v := range mm {
	tot += v
}
g := 0
for range mm {
	g++
}
fmt.Println(tot, g, keys(mm))`},
	{ID: "labelled-loops", Holes: []string{"int", "int"}, Body: `outer#:
for c := 0; c < 3; c++ {
	for d := 0; d < 3; d++ {
		if d == @1 {
			continue outer#
		}
		if c == @2 {
			break outer#
		}
		fmt.Print(c, d, " ")
	}
	fmt.Print("end", c, " ")
}
fmt.Println()`},
	{ID: "labelled-range-switch", Holes: []string{"int", "int"}, Body: `loop#:
for n, v := range []int{4, 1, 3, 7, 5} {
	switch {
	case v == @1:
		fmt.Print("brk ")
		break loop#
	case v == @2:
		fmt.Print("cont ")
		continue loop#
	case n == 3:
		break
	default:
		fmt.Print("dflt ")
	}
	fmt.Print(v, " ")
}
fmt.Println()`},
	{ID: "labelled-inner", Holes: []string{"int"}, Body: `for c := 0; c < 3; c++ {
inner#:
	for d := 0; d < 4; d++ {
		for e := 0; e < 2; e++ {
			if d+e == @1 {
				continue inner#
			}
			if d*e > @1 {
				break inner#
			}
			fmt.Print(c, d, e, " ")
		}
	}
}
fmt.Println()`},
	{ID: "goto", Holes: []string{"int"}, Body: `n := 0
again#:
fmt.Print(n, " ")
n++
if n < @1 && n < 5 {
	goto again#
}
if n > 3 {
	goto done#
}
fmt.Print("mid ")
done#:
fmt.Println("n", n)`},
	{ID: "labels-stacked", Holes: []string{"int"}, Body: `n := 0
first#:
second#:
	for n < 6 {
		n++
		if n == @1 {
			break second#
		}
		if n%2 == 0 {
			continue second#
		}
		fmt.Print(n, " ")
	}
if n < 3 {
	n += 10
	goto first#
}
fmt.Println("n", n)`},
	{ID: "labels-on-switch-select-block", Holes: []string{"int"}, Body: `n := @1
sw#:
	switch {
	case n > 2:
		if n > 4 {
			fmt.Print("big ")
			break sw#
		}
		fmt.Print("mid ")
	default:
		fmt.Print("small ")
	}
ch := make(chan int, 1)
ch <- n
sel#:
	select {
	case v := <-ch:
		if v%2 == 0 {
			break sel#
		}
		fmt.Print("odd ")
	}
	if n < 0 {
		goto blk#
	}
	n++
blk#:
	{
		fmt.Print("block ")
	}
fmt.Println(n)`},
	{ID: "closure-loopvar", Holes: []string{"int"}, Body: `var fs []func() int
for n := 0; n < 3; n++ {
	fs = append(fs, func() int { n += @b1; return n })
}
for _, g := range fs {
	fmt.Print(g(), " ", g(), " ")
}
var gs []func() int
for n, v := range xs {
	gs = append(gs, func() int { return n*10 + v + @1 })
}
for _, g := range gs {
	fmt.Print(g(), " ")
}
fmt.Println()`},
	{ID: "closure-counter", Holes: []string{"int", "int"}, Mut: true, Body: `mk := func(st int) func() int {
	c := st
	return func() int {
		c += @b2
		i++
		return c
	}
}
g, h := mk(@b1), mk(0)
fmt.Println(g(), g(), h(), g(), h())`},
	{ID: "closure-capture-write", Holes: []string{"int", "int"}, Mut: true, Body: `u := @b1
bump := func() { u += @b2; j++ }
bump()
bump()
rd := func() int { return u }
u *= 2
fmt.Println(u, rd())`},
}

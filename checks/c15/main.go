// C15: scanning is total and every token is the exact source text.
// Mode E: every byte string up to length N over a 24-byte alphabet, both comment modes.
// Mode B: BFS over the scanner's abstract states (insertSemi, nParen, last lexeme),
// every (separator, lexeme) action in every state.
package main

import (
	"strings"
	"fmt"

	"github.com/goplus/xgo/scanner"
	"verif/engine"
	"verif/scanx"
)

var alpha = []byte("a10x_.\"'`\\/*#\n\r ${}!-><=")

type Case struct {
	Src      string `json:"src"`
	Comments bool   `json:"comments"`
}

func eval(k Case) *engine.Failure {
	src := []byte(k.Src)
	var r scanx.Result
	if f := engine.Guard(func() { r = scanx.XGo(src, k.Comments, nil) }); f != nil {
		return f
	}
	inv, kind, detail := scanx.CheckTotalExact(src, r, k.Comments)
	if inv == "" {
		return nil
	}
	return &engine.Failure{Key: inv + ":" + kind, What: "scanner invariant " + inv + " violated", Detail: fmt.Sprintf("src=%q comments=%v: %s; tokens=%+v", k.Src, k.Comments, detail, r.Toks)}
}

func main() {
	c := engine.New("C15", "model_checking")
	if c.IsReplay() {
		var k Case
		c.LoadReplay(&k)
		c.ReplayResult(eval(k))
	}
	maxLen := 4
	if c.Thorough() {
		maxLen = 5
	}
	// ---- mode E in worker subprocesses: block = first two bytes ----
	A := len(alpha)
	job := &engine.Job{NumBlocks: A*A + 1}
	job.RunBlock = func(w *engine.W, b int) {
		run := func(s []byte) {
			for _, cm := range []bool{false, true} {
				k := Case{string(s), cm}
				if !w.Item(k) {
					continue
				}
				if f := eval(k); f != nil {
					w.Fail(k, f)
				}
			}
			w.Nontrivial()
		}
		if b == A*A { // lengths 0 and 1
			run(nil)
			for _, x := range alpha {
				run([]byte{x})
			}
			return
		}
		pre := []byte{alpha[b/A], alpha[b%A]}
		for n := 2; n <= maxLen; n++ {
			s := make([]byte, n)
			copy(s, pre)
			idx := make([]int, n-2)
			for {
				for i, v := range idx {
					s[2+i] = alpha[v]
				}
				run(s)
				i := len(idx) - 1
				for ; i >= 0; i-- {
					idx[i]++
					if idx[i] < A {
						break
					}
					idx[i] = 0
				}
				if i < 0 {
					break
				}
			}
		}
		w.Sample(Case{string(pre) + "#\n", true})
	}
	if !c.IsWorker() {
		bfs(c)
	}
	job.Run(c)
	c.Rule = fmt.Sprintf("(E) every byte string of length 0..%d over the %d-byte alphabet %q in both comment modes; (B) BFS over scanner states (comment mode, insertSemi, nParen clamped to -2..3, last lexeme) with every (separator, lexeme) action from %d separators x %d lexemes. distinct_nontrivial = distinct byte strings + distinct (state, action) transitions", maxLen, A, string(alpha), len(scanx.Seps), len(scanx.Lexemes))
	c.Assumptions = []string{
		"inserted semicolons (literal \"\\n\") cover no bytes and may share the offset of a following comment (as in go/scanner)",
		"c\"...\" / py\"...\" literals omit their prefix by design; their text is compared after the prefix",
		"ILLEGAL tokens are exempt from the text equality (literal is the decoded rune)",
		"BFS canonicalisation: Scan's future depends only on the remaining bytes, insertSemi, nParen and a pending unit; nParen is clamped to -2..3 (deeper nesting is assumed symmetric)",
	}
	c.Extra["bound"] = map[string]any{"max_bytes": maxLen, "alphabet": string(alpha)}
	c.Finish()
}

// ---- mode B ----
type st struct {
	comments   bool
	insertSemi bool
	nParen     int
	last       int
	// trail: same-line block comments scanned after a token that left a semicolon pending. The
	// scanner decides about that semicolon by looking ahead past such comments (findLineEnd), so in
	// the witness the decision was taken against the end of input; the continuation decides again.
	// Such a state is therefore the pending state plus the comments, not the state after them.
	trail string
}

// inlineBlockComment: a /*...*/ comment without a line break (the only lexemes the scanner looks past).
func inlineBlockComment(lx string) bool {
	return strings.HasPrefix(lx, "/*") && strings.HasSuffix(lx, "*/") && len(lx) >= 4 && !strings.Contains(lx, "\n")
}

func clamp(n int) int {
	if n < -2 {
		return -2
	}
	if n > 3 {
		return 3
	}
	return n
}

func bfs(c *engine.Check) {
	type node struct {
		s       st
		witness string
	}
	seen := map[st]bool{}
	var queue []node
	maxTrail := 1
	if c.Thorough() {
		maxTrail = 2
	}
	for _, cm := range []bool{false, true} {
		s0 := st{cm, false, 0, -1, ""}
		seen[s0] = true
		queue = append(queue, node{s0, ""})
	}
	states, trans := 0, 0
	var sampleTrace []string
	for len(queue) > 0 {
		nd := queue[0]
		queue = queue[1:]
		states++
		for _, sep := range scanx.Seps {
			for li, lx := range scanx.Lexemes {
				src := nd.witness + sep + lx.Text
				k := Case{src, nd.s.comments}
				trans++
				var end *scanx.State
				var r scanx.Result
				f := engine.Guard(func() {
					r = scanx.XGo([]byte(src), nd.s.comments, func(s *scanner.Scanner, t scanx.Tok) {
						if end == nil {
							if x := scanx.XGoState(s); x.Offset >= len(src) {
								end = &x
							}
						}
					})
				})
				if f == nil {
					if inv, kind, detail := scanx.CheckTotalExact([]byte(src), r, nd.s.comments); inv != "" {
						f = &engine.Failure{Key: inv + ":" + kind, What: "scanner invariant " + inv + " violated", Detail: fmt.Sprintf("src=%q comments=%v: %s; tokens=%+v", src, nd.s.comments, detail, r.Toks)}
					}
				}
				if f != nil {
					c.Violate(k, f)
					continue
				}
				if end == nil {
					continue
				}
				ns := st{nd.s.comments, end.InsertSemi, clamp(end.NParen), li, ""}
				if nd.s.insertSemi && inlineBlockComment(lx.Text) && !strings.Contains(sep, "\n") {
					if strings.Count(nd.s.trail, "\x00") >= maxTrail {
						continue // the transition was evaluated; longer comment runs are not expanded
					}
					sc := sep
					if sc == "\t" {
						sc = " "
					}
					ns = nd.s
					ns.trail += sc + lx.Text + "\x00"
				}
				if !seen[ns] {
					seen[ns] = true
					queue = append(queue, node{ns, src})
					if len(sampleTrace) < 4 {
						sampleTrace = append(sampleTrace, fmt.Sprintf("%q -> %+v", src, ns))
					}
				}
			}
		}
	}
	c.Eval(int64(trans))
	c.NontrivialN(int64(trans))
	c.Extra["states"] = states
	c.Extra["transitions"] = trans
	c.Extra["traces_validated_against_impl"] = trans
	c.Extra["bfs_samples"] = sampleTrace
	c.Sample(map[string]any{"bfs_transition_examples": sampleTrace})
}

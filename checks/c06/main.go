// C06: compiler success implies valid, well-typed Go output.
// Mode E (bounded-exhaustive): every seed of the pool (verif/models/neighbours) and every distinct
// 1-edit token-level neighbour of it is compiled through the production path (x/build Context.ParseFSDir =
// parser + cl.NewPackage with recover enabled). For every input for which the compiler reports NO error the
// written Go must (1) be written at all, (2) parse with go/parser, (3) type-check with go/types (in-process)
// and (4) build with the Go toolchain (`go build`, one package per input, batched). Oracle: no input with
// (compiler success AND Go rejects). Violations are keyed by the class of the Go diagnostic and the kind of
// edit that produced the input.
package main

import (
	"bytes"
	"crypto/sha1"
	"encoding/json"
	"fmt"
	goast "go/ast"
	goparser "go/parser"
	"go/scanner"
	gotoken "go/token"
	"go/types"
	"os"
	"os/exec"
	"path/filepath"
	"regexp"
	"runtime/debug"
	"sort"
	"strings"
	"time"

	"github.com/goplus/gogen/packages"
	"github.com/goplus/xgo/parser/fsx/memfs"
	"github.com/goplus/xgo/token"
	"github.com/goplus/xgo/x/build"

	"verif/engine"
	"verif/models/neighbours"
	"verif/models/neighbours/nbrun"
	"verif/progs"
)

type Case struct {
	Prog string          `json:"prog"`
	File string          `json:"file"`
	Edit neighbours.Edit `json:"edit"`
	Src  string          `json:"src"`
	// Files: further files of the package (package-shape family): XGo files and hand-written .go files
	Files map[string]string `json:"files,omitempty"`
}

const dirEnv = "VERIF_C06_DIR"

var (
	fset   = token.NewFileSet()
	gofset = gotoken.NewFileSet()
	imp    *packages.Importer
	// a separate importer instance for the oracle: gogen decorates the packages its importer returns
	impGo *packages.Importer
)

func importers() {
	if imp == nil {
		imp = nbrun.NewImporter(fset, os.Getenv(dirEnv))
		impGo = nbrun.NewImporter(gofset, os.Getenv(dirEnv))
	}
}

type outcome struct {
	class string // parse_error | cl_error | cl_panic | success
	goSrc []byte // generated Go when the in-process stages accepted it
	out   []byte // generated Go (also when rejected in-process)
	fail  *engine.Failure
}

const vdir = "/vprog"

// evalInProcess runs the compiler and the in-process stages of the oracle.
func evalInProcess(k Case) (o outcome) {
	importers()
	path := filepath.Join(vdir, k.File)
	names, texts := []string{k.File}, map[string]string{path: k.Src}
	var extra []string
	for n := range k.Files {
		extra = append(extra, n)
	}
	sort.Strings(extra)
	for _, n := range extra {
		names = append(names, n)
		texts[filepath.Join(vdir, n)] = k.Files[n]
	}
	mfs := memfs.New(map[string][]string{vdir: names}, texts)
	ctx := build.NewContext(imp, fset)
	var pkg *build.Package
	var err error
	if g := engine.Guard(func() { pkg, err = ctx.ParseFSDir(mfs, vdir) }); g != nil {
		o.class = "cl_panic" // C07's subject
		return
	}
	if err != nil {
		if _, ok := err.(interface{ Sort() }); ok { // scanner.ErrorList
			o.class = "parse_error"
		} else {
			o.class = "cl_error"
		}
		return
	}
	o.class = "success"
	det := func(s string) string {
		more := ""
		for _, n := range extra {
			more += fmt.Sprintf("file %s:\n%s\n", n, k.Files[n])
		}
		return fmt.Sprintf("seed=%s edit=%+v\nXGo source (%s):\n%s\n%s%s", k.Prog, k.Edit, k.File, k.Src, more, s)
	}
	var out []byte
	var werr error
	if g := engine.Guard(func() { out, werr = pkg.ToSource() }); g != nil {
		o.fail = &engine.Failure{Key: "output-not-written:panic@" + nbrun.PanicSite(g) + editKind(k), What: "the compiler reported no error but writing the Go source panics: " + g.What, Detail: det(g.Detail)}
		return
	}
	if werr != nil {
		o.fail = &engine.Failure{Key: "output-not-written:error" + editKind(k), What: "the compiler reported no error but writing the Go source fails", Detail: det(werr.Error())}
		return
	}
	o.out = out
	f, perr := goparser.ParseFile(gofset, "main.go", out, goparser.SkipObjectResolution)
	if perr != nil {
		msg := perr.Error()
		if el, ok := perr.(scanner.ErrorList); ok && len(el) > 0 {
			msg = el[0].Msg
		}
		o.fail = &engine.Failure{Key: "go-parse-error:" + diagClass(msg) + editKind(k), What: "the compiler reported no error but go/parser rejects the written Go: " + msg, Detail: det("go/parser: " + perr.Error() + "\ngenerated Go:\n" + string(out))}
		return
	}
	var terrs []types.Error
	conf := types.Config{Importer: impGo, GoVersion: "go1.23", Sizes: types.SizesFor("gc", "amd64")}
	var softs []types.Error
	conf.Error = func(err error) {
		if te, ok := err.(types.Error); ok {
			if te.Soft {
				softs = append(softs, te)
			} else {
				terrs = append(terrs, te)
			}
		}
	}
	gofiles := []*goast.File{f}
	for _, n := range extra { // the hand-written Go files of a mixed package are compiled together with the generated file
		if strings.HasSuffix(n, ".go") {
			gf, gerr := goparser.ParseFile(gofset, n, k.Files[n], goparser.SkipObjectResolution)
			if gerr != nil {
				o.class = "excluded_go_file_does_not_parse"
				return
			}
			gofiles = append(gofiles, gf)
		}
	}
	tpanic := engine.Guard(func() { conf.Check(f.Name.Name, gofset, gofiles, nil) })
	if tpanic != nil {
		o.class = "excluded_gotypes_panic" // a go/types failure is not the subject's; left to the go build stage
		o.goSrc = out
		return
	}
	// hard errors first (they may cause the soft ones); soft errors (unused variable/import, ...) are
	// errors of the Go compiler as well
	all := append(terrs, softs...)
	if len(all) > 0 {
		var lines []string
		for i, e := range all {
			if i < 6 {
				lines = append(lines, e.Error())
			}
		}
		o.fail = &engine.Failure{Key: "go-rejects:" + diagClass(all[0].Msg) + editKind(k), What: "the compiler reported no error but go/types rejects the written Go: " + all[0].Msg,
			Detail: det("go/types: " + strings.Join(lines, "\n          ") + "\ngenerated Go:\n" + string(out))}
		return
	}
	o.goSrc = out
	return
}

// editKind is the second component of every violation key: the menu item that produced the input
// (the unmodified seed = "seed"). A missing check shows in the families of inputs that exercise it, so a
// regression whose Go diagnostic falls into an already known class still yields a key of its own
// unless the same class was already known for the same kind of edit.
func editKind(k Case) string {
	switch k.Edit.Kind {
	case "none", "":
		return "|seed"
	case "assign":
		return "|define-assign"
	}
	return "|" + k.Edit.Kind
}

// ---- Go diagnostic classes ----

var classTable = []struct{ sub, class string }{
	{"declared and not used", "declared and not used"},
	{"imported and not used", "imported and not used"},
	{"missing return", "missing return"},
	{"defined and not used", "label defined and not used"},
	{"is not used", "value is not used"},
	{"evaluated but not used", "value is not used"},
	{"undefined:", "undefined name"},
	{"invalid map key type", "invalid map key type"},
	{"invalid slice indices", "invalid slice indices"},
	{"invalid use of ...", "invalid use of ..."},
	{"is not constant", "value is not constant"},
	{"must be called", "built-in must be called"},
	{"used as value", "no-value expression used as value"},
	{"multiple-value", "multiple-value expression in single-value context"},
	{"break not in", "misplaced break"},
	{"continue not in", "misplaced continue"},
	{"select case must be", "invalid select case"},
	{"field and method with the same name", "field and method with the same name"},
	{"already declared", "method already declared"},
	{"redeclared", "redeclared in this block"},
	{"no new variables", "no new variables on left side of :="},
	{"repeated on left side", "variable repeated on left side of :="},
	{"assignment mismatch", "assignment mismatch"},
	{"mismatched types", "invalid operation: mismatched types"},
	{"cannot use _ as value", "cannot use _ as value"},
	{"cannot use", "cannot use value as type"},
	{"cannot convert", "cannot convert"},
	{"not enough arguments", "not enough arguments"},
	{"too many arguments", "too many arguments"},
	{"not enough return values", "not enough return values"},
	{"too many return values", "too many return values"},
	{"has no field or method", "no field or method"},
	{"non-boolean condition", "non-boolean condition"},
	{"is not a type", "not a type"},
	{"is not an expression", "not an expression"},
	{"cannot assign to", "cannot assign"},
	{"cannot range over", "cannot range over"},
	{"cannot call non-function", "cannot call non-function"},
	{"cannot index", "cannot index"},
	{"cannot slice", "cannot slice"},
	{"invalid argument", "invalid argument"},
	{"duplicate case", "duplicate case"},
	{"duplicate key", "duplicate key in map literal"},
	{"missing key in map literal", "missing key in map literal"},
	{"fallthrough", "misplaced fallthrough"},
	{"break statement not within", "misplaced break"},
	{"continue statement not within", "misplaced continue"},
	{"invalid break label", "invalid break label"},
	{"invalid continue label", "invalid continue label"},
	{"label", "label error"},
	{"initialization cycle", "initialization cycle"},
	{"invalid recursive type", "invalid recursive type"},
	{"overflows", "constant overflows"},
	{"truncated", "constant truncated"},
	{"division by zero", "division by zero"},
	{"out of range", "index out of range"},
	{"out of bounds", "index out of range"},
	{"must be integer", "operand must be integer"},
	{"not defined on", "invalid operation: operator not defined"},
	{"cannot compare", "invalid operation: cannot compare"},
	{"invalid operation", "invalid operation"},
	{"unreachable", "unreachable code"},
	{"use of untyped nil", "use of untyped nil"},
	{"cannot infer", "cannot infer"},
	{"missing init expr", "missing init expr"},
	{"expected", "syntax: expected token"},
}

var (
	reQuoted = regexp.MustCompile("\"[^\"]*\"|`[^`]*`|'[^']*'")
	reParen  = regexp.MustCompile(`\([^()]*\)`)
	reWord   = regexp.MustCompile(`^[a-z][a-z-]+$`)
)

// diagClass normalises a Go diagnostic to its class: names, types, positions and literals are stripped.
func diagClass(msg string) string {
	if i := strings.IndexAny(msg, "\n\t"); i >= 0 {
		msg = msg[:i]
	}
	for _, t := range classTable {
		if strings.Contains(msg, t.sub) {
			return t.class
		}
	}
	m := reQuoted.ReplaceAllString(msg, "")
	for {
		n := reParen.ReplaceAllString(m, "")
		if n == m {
			break
		}
		m = n
	}
	var words []string
	for _, w := range strings.Fields(m) {
		w = strings.TrimRight(w, ",;:")
		if reWord.MatchString(w) && len(words) < 8 {
			words = append(words, w)
		}
	}
	return "other: " + strings.Join(words, " ")
}

// ---- inputs ----

func seeds(thorough bool) []neighbours.Prog {
	var out []neighbours.Prog
	maxTok, maxCorpus := 24, 80
	if thorough {
		maxTok, maxCorpus = 1<<30, 700
	}
	for _, p := range neighbours.Hand() {
		if p.NTok <= maxTok {
			out = append(out, p)
		}
	}
	for _, p := range neighbours.Corpus(maxCorpus) {
		// output that imports an internal package of the repository cannot be built as a package of
		// another module: a limit of the harness, not of the compiler
		if strings.Contains(p.Src, "/internal/") {
			excludedSeeds = append(excludedSeeds, p.Name)
			continue
		}
		out = append(out, p)
	}
	return out
}

var excludedSeeds []string

var rePkgClause = regexp.MustCompile(`(?m)^package main$`)

func pkgDir(b, item int) string { return fmt.Sprintf("b%04d/m%05d", b, item) }

// ---- package shapes: several files per package, XGo and hand-written Go mixed, with the entry point
// in either kind of file, in none, or as top-level statements ----
func packageShapes() []Case {
	xgo := []struct{ name, src string }{
		{"decls", "func fx() int {\n\treturn 1\n}\n"},
		{"decls-using-go", "func fx() int {\n\treturn gy() + 1\n}\n"},
		{"main-func", "func fx() int {\n\treturn 1\n}\n\nfunc main() {\n\techo fx()\n}\n"},
		{"main-func-using-go", "func fx() int {\n\treturn 1\n}\n\nfunc main() {\n\techo fx() + gy()\n}\n"},
		{"top-level-statements", "func fx() int {\n\treturn 1\n}\n\necho fx()\n"},
		{"type-and-method", "type T struct {\n\tA int\n}\n\nfunc (t T) get() int {\n\treturn t.A\n}\n\nfunc fx() int {\n\treturn T{1}.get()\n}\n"},
		{"init-only", "func fx() int {\n\treturn 1\n}\n\nfunc init() {\n\techo \"i\"\n}\n"},
		{"var-only", "var vx = 5\n\nfunc fx() int {\n\treturn vx\n}\n"},
	}
	gof := []struct{ name, src string }{
		{"none", ""},
		{"helper", "func gy() int { return 2 }\n"},
		{"main", "func gy() int { return 2 }\n\nfunc main() { println(gy()) }\n"},
		{"main-using-xgo", "func gy() int { return 2 }\n\nfunc main() { println(fx() + gy()) }\n"},
		{"init", "func gy() int { return 2 }\n\nfunc init() { println(\"gi\") }\n"},
		{"type-and-method", "type G struct{}\n\nfunc (G) M() int { return 3 }\n\nfunc gy() int { return G{}.M() }\n"},
		{"var-using-xgo", "var gv = fz0()\n\nfunc gy() int { return gv }\n"},
	}
	second := []struct{ name, src string }{
		{"none", ""},
		{"decls", "func fz() int {\n\treturn 3\n}\n"},
		{"main-func", "func fz() int {\n\treturn 3\n}\n\nfunc main() {\n\techo fz()\n}\n"},
		{"top-level-statements", "func fz() int {\n\treturn 3\n}\n\necho fz()\n"},
	}
	var out []Case
	for _, pkg := range []string{"main", "foo"} {
		for _, x := range xgo {
			for _, g := range gof {
				for _, s2 := range second {
					for _, two := range []bool{false, true} { // the Go part in one or in two files
						if two && g.name == "none" {
							continue
						}
						clause := ""
						if pkg != "main" {
							clause = "package " + pkg + "\n\n"
						}
						files := map[string]string{}
						if g.name != "none" {
							if two {
								files["b.go"] = "package " + pkg + "\n\nvar gw = 1\n"
								files["c.go"] = "package " + pkg + "\n\n" + g.src
							} else {
								files["b.go"] = "package " + pkg + "\n\n" + g.src
							}
						}
						if s2.name != "none" {
							files["z.xgo"] = clause + s2.src
						}
						shape := fmt.Sprintf("package=%s xgo=%s go=%s second-xgo=%s go-files=%d", pkg, x.name, g.name, s2.name, len(files))
						out = append(out, Case{Prog: "shape: " + shape, File: "a.xgo", Edit: neighbours.Edit{Kind: "package-shape"}, Src: clause + x.src + "\nfunc fz0() int {\n\treturn 4\n}\n", Files: files})
					}
				}
			}
		}
	}
	return out
}

func main() {
	c := engine.New("C06", "exploration")
	if c.IsReplay() {
		var k Case
		c.LoadReplay(&k)
		o := evalInProcess(k)
		if o.fail == nil && o.goSrc != nil {
			s, err := progs.NewScratch()
			if err != nil {
				c.Fatal("%v", err)
			}
			writePkg(s.Dir, "b0000/m00000", o.goSrc, k)
			fails, err := goBuild(s.Dir, []string{"b0000/m00000"})
			s.Remove()
			if err != nil {
				c.Fatal("%v", err)
			}
			if msg, ok := fails["b0000/m00000"]; ok {
				o.fail = buildFailure(k, msg, o.goSrc)
			}
		}
		c.ReplayResult(o.fail)
	}
	sd := seeds(c.Thorough())
	root := os.Getenv(dirEnv)
	var scratch *progs.Scratch
	if !c.IsWorker() {
		var err error
		scratch, err = progs.NewScratch()
		if err != nil {
			c.Fatal("%v", err)
		}
		root = scratch.Dir
		os.Setenv(dirEnv, root)
		var srcs []string
		for _, s := range sd {
			srcs = append(srcs, s.Src)
		}
		if err := nbrun.PrepareExports(root, srcs); err != nil {
			scratch.Remove()
			c.Fatal("%v", err)
		}
	}
	job := &engine.Job{NumBlocks: len(sd), BlockTimeout: 900 * time.Second, ItemTimeout: 300 * time.Second, MemLimitMB: 2000}
	started := false
	job.RunBlock = func(w *engine.W, b int) {
		if !started {
			started = true
			debug.SetMaxStack(256 << 20)
			nbrun.StartCPUWatchdog(6 * time.Second)
		}
		s := sd[b]
		rec := nbrun.NewRecorder(root, b)
		defer rec.Close()
		os.RemoveAll(filepath.Join(root, fmt.Sprintf("b%04d", b)))
		seen := map[[20]byte]bool{}
		item, crashed := 0, 0
		run := func(e neighbours.Edit, src string) {
			k := Case{s.Name, s.File, e, src, nil}
			item++
			if crashed >= nbrun.MaxCrashesPerBlock {
				w.Hist("not_evaluated_block_abandoned")
				return
			}
			if !w.Item(k) {
				if crashed++; crashed == nbrun.MaxCrashesPerBlock {
					nbrun.Abandon(root, b, fmt.Sprintf("seed %s: %d inputs crashed or hung the worker; the inputs after item %d of this seed were not evaluated", s.Name, crashed, item))
				}
				return
			}
			nbrun.ItemStart()
			o := evalInProcess(k)
			w.Hist(o.class)
			if o.class == "success" || o.class == "excluded_gotypes_panic" {
				w.Nontrivial()
				w.Hist("success_by_edit:" + e.Kind)
			}
			if o.fail != nil {
				rec.Add(item, len(src), k, o.fail)
				w.Hist("rejected_in_process")
				return
			}
			if o.goSrc != nil {
				h := sha1.Sum(o.goSrc)
				if seen[h] {
					w.Hist("go_build_skipped_identical_output")
					return
				}
				seen[h] = true
				writePkg(root, pkgDir(b, item), o.goSrc, k)
				w.Hist("go_build_queued")
			}
		}
		run(neighbours.Edit{Kind: "none"}, s.Src)
		ms := neighbours.Neighbours(s.Src)
		for _, m := range ms {
			run(m.Edit, m.Src)
		}
		if b%20 == 0 && len(ms) > 0 {
			m := ms[len(ms)/3]
			w.Sample(Case{s.Name, s.File, m.Edit, m.Src, nil})
		}
	}
	t0 := time.Now()
	job.Run(c)
	tWorkers := time.Since(t0)

	// ---- package shapes (in-process, in this process: a few hundred small packages) ----
	shapeOK := 0
	for _, k := range packageShapes() {
		o := evalInProcess(k)
		c.Eval(1)
		c.Hist("package_shape:"+o.class, 1)
		if o.class == "success" {
			shapeOK++
			c.Nontrivial("shape:" + k.Prog)
		}
		if o.fail != nil {
			c.Violate(k, o.fail)
		}
	}
	c.Extra["package_shapes_compiled_and_type_checked_with_their_go_files"] = shapeOK

	// ---- stage 4: go build of everything the in-process stages accepted ----
	type viol struct {
		size, block, item int
		k                 Case
		f                 *engine.Failure
	}
	var viols []viol
	for _, n := range nbrun.Abandoned(root) {
		c.Cap(n)
	}
	recs, err := nbrun.ReadRecords(root)
	if err != nil {
		c.Fatal("%v", err)
	}
	for _, r := range recs {
		var k Case
		json.Unmarshal(r.Case, &k)
		viols = append(viols, viol{r.Size, r.Block, r.Item, k, r.F})
	}
	sortViols := func() {
		sort.SliceStable(viols, func(i, j int) bool {
			a, b := viols[i], viols[j]
			if a.size != b.size {
				return a.size < b.size
			}
			if a.block != b.block {
				return a.block < b.block
			}
			return a.item < b.item
		})
	}
	sortViols()
	// the smallest witness of every class found in-process is confirmed with the Go toolchain itself
	firstOf := map[string]int{}
	var keys []string
	for i, v := range viols {
		if strings.HasPrefix(v.f.Key, "go-rejects:") {
			if _, ok := firstOf[v.f.Key]; !ok {
				firstOf[v.f.Key] = i
				keys = append(keys, v.f.Key)
			}
		}
	}
	sort.Strings(keys)
	var pkgs []string
	witness := map[string]string{} // package -> key
	for n, key := range keys {
		v := viols[firstOf[key]]
		o := evalInProcess(v.k)
		if o.fail == nil || o.fail.Key != key || o.out == nil {
			scratch.Remove()
			c.Fatal("re-evaluation of the witness of %q in the parent process gives a different verdict (harness not deterministic)", key)
		}
		rel := fmt.Sprintf("a0000/m%05d", n)
		writePkg(root, rel, o.out, v.k)
		pkgs = append(pkgs, rel)
		witness[rel] = key
	}
	dirs, _ := filepath.Glob(filepath.Join(root, "b*", "m*"))
	sort.Strings(dirs)
	for _, d := range dirs {
		rel, _ := filepath.Rel(root, d)
		pkgs = append(pkgs, rel)
	}
	batch := 500
	if !c.Thorough() {
		batch = 250 // the internal deadline is checked between batches
	}
	built := 0
	confirmed := map[string]string{}
	for i := 0; i < len(pkgs); i += batch {
		if c.Expired() {
			c.Cap(fmt.Sprintf("deadline: %d of %d accepted outputs were not passed to go build", len(pkgs)-i, len(pkgs)))
			break
		}
		j := i + batch
		if j > len(pkgs) {
			j = len(pkgs)
		}
		fails, err := goBuild(root, pkgs[i:j])
		if err != nil {
			scratch.Remove()
			c.Fatal("%v", err)
		}
		for _, p := range pkgs[i:j] {
			msg, failed := fails[p]
			if key, ok := witness[p]; ok {
				if failed {
					confirmed[key] = msg
				} else {
					confirmed[key] = ""
				}
				continue
			}
			built++
			if !failed {
				continue
			}
			var k Case
			data, _ := os.ReadFile(filepath.Join(root, p, "case.json"))
			if json.Unmarshal(data, &k) != nil {
				scratch.Remove()
				c.Fatal("no case for package %s", p)
			}
			src, _ := os.ReadFile(filepath.Join(root, p, "main.go"))
			var b, it int
			fmt.Sscanf(p, "b%04d/m%05d", &b, &it)
			viols = append(viols, viol{len(k.Src), b, it, k, buildFailure(k, msg, src)})
			c.Hist("rejected_by_go_build_only", 1)
		}
	}
	c.Hist("go_build_packages", int64(built))
	for _, key := range keys {
		msg, done := confirmed[key]
		switch {
		case !done:
			c.Hist("witness_confirmation_skipped_deadline", 1)
		case msg != "":
			viols[firstOf[key]].f.Detail += "\nconfirmed by go build:\n" + msg
			c.Hist("witness_confirmed_by_go_build", 1)
		default:
			// keep reporting (the type checker is one leg of the property) but under its own key
			nk := "go-types-only-rejects:" + strings.TrimPrefix(key, "go-rejects:")
			for i := range viols {
				if viols[i].f.Key == key {
					viols[i].f.Key = nk
				}
			}
			c.Hist("witness_not_confirmed_by_go_build", 1)
		}
	}
	sortViols()
	for _, v := range viols {
		c.Hist("rejected:"+v.f.Key, 1)
		c.Violate(v.k, v.f)
	}
	scratch.Remove()
	c.Extra["phase_seconds"] = map[string]any{"compile_and_go_types_in_workers": int(tWorkers.Seconds()), "go_build": int((time.Since(t0) - tWorkers).Seconds())}
	c.Rule = fmt.Sprintf("every seed and every distinct 1-edit token-level neighbour (menu: %s) of %d seed programs (hand-written pool + repository .xgo files up to the size bound; quick = the smallest seeds, complete neighbourhoods). Every input the compiler accepts is judged by go/parser, go/types (go1.23) and `go build` (own package per input, batches of %d; byte-identical outputs of one seed built once). distinct_nontrivial = inputs for which the compiler reported no error", strings.Join(neighbours.Menu, ", "), len(sd), batch)
	c.Assumptions = []string{
		"production path: x/build Context.ParseFSDir (parser.ParseFSDir + cl.NewPackage, recover enabled) and Package.ToSource; inputs with parse errors are not compiled by this path and are not judged; a panic escaping the compiler is C07's subject and only counted here",
		"the written Go is judged as a package of its own in a scratch module (go 1.23, requires github.com/qiniu/x and the repository); `package main` is renamed so that go build compiles without linking",
		"soft go/types errors (unused variable, unused import, unused label) are errors of the Go compiler and count as rejection",
		"violation keys are <class of the first Go diagnostic (names, types and positions stripped)>|<edit kind that produced the input: seed, delete, duplicate, ident, operator, literal, define-assign, drop-return, undeclared>; the smallest witness of every class found by go/types is re-checked with go build and the class is renamed go-types-only-rejects if go build accepts it",
	}
	c.Extra["bound"] = map[string]any{"seeds": len(sd), "edit_menu": neighbours.Menu, "excluded_seeds_importing_internal_packages": excludedSeeds}
	c.Finish()
}

func writePkg(root, rel string, src []byte, k Case) {
	d := filepath.Join(root, rel)
	if err := os.MkdirAll(d, 0o755); err != nil {
		fmt.Fprintln(os.Stderr, "verif:", err)
		os.Exit(2)
	}
	src = rePkgClause.ReplaceAll(src, []byte("package p"))
	os.WriteFile(filepath.Join(d, "main.go"), src, 0o644)
	b, _ := json.Marshal(k)
	os.WriteFile(filepath.Join(d, "case.json"), b, 0o644)
}

var reHdr = regexp.MustCompile(`^(?:# |package )vprog/([ab]\d+/m\d+)`)

// goBuild compiles the packages (no linking: none is a main package) and returns the diagnostics per
// failing package.
func goBuild(root string, pkgs []string) (map[string]string, error) {
	fails := map[string]string{}
	remaining := append([]string(nil), pkgs...)
	for round := 0; round < 4 && len(remaining) > 0; round++ {
		args := []string{"build"}
		for _, p := range remaining {
			args = append(args, "./"+p)
		}
		cmd := exec.Command("go", args...)
		cmd.Dir = root
		cmd.Env = []string{"GOFLAGS=-mod=mod", "GOPROXY=off", "GOSUMDB=off", "GOTOOLCHAIN=local", "CGO_ENABLED=0"}
		for _, k := range []string{"PATH", "HOME", "GOCACHE", "GOMODCACHE", "GOPATH", "GOROOT", "TMPDIR"} {
			if v := os.Getenv(k); v != "" {
				cmd.Env = append(cmd.Env, k+"="+v)
			}
		}
		var out bytes.Buffer
		cmd.Stdout, cmd.Stderr = &out, &out
		if err := cmd.Run(); err == nil {
			return fails, nil
		}
		cur, found := "", false
		for _, l := range strings.Split(out.String(), "\n") {
			if m := reHdr.FindStringSubmatch(l); m != nil {
				cur, found = m[1], true
				continue
			}
			if strings.HasPrefix(l, "# ") || strings.HasPrefix(l, "package ") {
				cur = ""
				continue
			}
			if cur != "" && l != "" {
				fails[cur] += l + "\n"
			}
		}
		if !found {
			s := out.String()
			if len(s) > 2000 {
				s = s[:2000]
			}
			return nil, fmt.Errorf("go build failed without package attribution: %s", s)
		}
		// go build stops scheduling after failures: build what was not reported again
		var next []string
		for _, p := range remaining {
			if _, bad := fails[p]; !bad {
				next = append(next, p)
			}
		}
		if len(next) == len(remaining) {
			break
		}
		remaining = next
	}
	return fails, nil
}

var reBuildPos = regexp.MustCompile(`^\S+?:\d+(?::\d+)?:\s*`)

func buildFailure(k Case, msg string, goSrc []byte) *engine.Failure {
	first := msg
	if i := strings.IndexByte(first, '\n'); i >= 0 {
		first = first[:i]
	}
	first = reBuildPos.ReplaceAllString(first, "")
	return &engine.Failure{Key: "go-build-rejects:" + diagClass(first) + editKind(k), What: "the compiler reported no error, go/parser and go/types accept the output, but go build rejects it: " + first,
		Detail: fmt.Sprintf("seed=%s edit=%+v\nXGo source (%s):\n%s\ngo build: %s\ngenerated Go:\n%s", k.Prog, k.Edit, k.File, k.Src, msg, goSrc)}
}

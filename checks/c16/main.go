// C16: the XGo scanner agrees with go/scanner on Go lexemes.
// Mode B: BFS over the product (XGo scanner state x go/scanner state) driven by
// (separator, Go lexeme) actions. Mode E: every short string over a numeric and
// a quote/escape alphabet.
package main

import (
	"fmt"
	"strings"
	"unicode"
	"unicode/utf8"

	"github.com/goplus/xgo/scanner"
	"verif/engine"
	"verif/scanx"
)

type Case struct {
	Src      string `json:"src"`
	Comments bool   `json:"comments"`
}

func isNumKind(k string) bool { return k == "INT" || k == "FLOAT" || k == "IMAG" }

// excluded reports inputs outside the property's premise: XGo-specific prefixes.
// A number immediately followed by a letter is XGo unit/rat syntax; c"..", C"..", py".." are XGo literals.
func excluded(src []byte, g scanx.Result) bool {
	for i := 1; i < len(g.Toks); i++ {
		p, t := g.Toks[i-1], g.Toks[i]
		if isNumKind(p.Kind) && (t.Kind == "IDENT" || len(t.Kind) > 1 && unicode.IsLower(rune(t.Kind[0])) && t.Lit == t.Kind) && t.Off == p.Off+len(p.Lit) {
			return true
		}
		if p.Kind == "IDENT" && (p.Lit == "c" || p.Lit == "C" || p.Lit == "py") && t.Kind == "STRING" && t.Off == p.Off+len(p.Lit) && strings.HasPrefix(t.Lit, `"`) {
			return true
		}
	}
	for i, t := range g.Toks {
		// A character go/scanner calls illegal (NUL, a stray byte, a BOM inside the text, @, \\, and the
		// XGo-only operator characters $ ? #) is not a Go lexeme: the input is outside the premise
		// "composed only of Go lexemes". (The two scanners do differ there: after `a/*k*/` an illegal
		// character keeps the pending semicolon in go/scanner >= 1.20 and drops it in XGo.)
		if t.Kind == "ILLEGAL" {
			return true
		}
		// 2i0: an imaginary literal immediately followed by a digit/letter is a unit for XGo
		if t.Kind == "IMAG" && i+1 < len(g.Toks) && g.Toks[i+1].Off == t.Off+len(t.Lit) {
			if n := g.Toks[i+1]; isNumKind(n.Kind) || n.Kind == "IDENT" {
				return true
			}
		}
	}
	_ = utf8.RuneLen
	return false
}

// xgoOnly: token kinds that only exist in XGo; their spellings (->, <>, =>, ?, $, units, c"" / py"") are
// not Go lexemes even when they arise from two adjacent Go lexemes ("-" ">>").
var xgoOnly = map[string]bool{"->": true, "<>": true, "=>": true, "?": true, "$": true, "UNIT": true, "RAT": true, "CSTRING": true, "PYSTRING": true}

func onlyComments(ts []scanx.Tok) []scanx.Tok {
	var out []scanx.Tok
	for _, t := range ts {
		if t.Kind == "COMMENT" {
			out = append(out, t)
		}
	}
	return out
}
func sameToks(a, b []scanx.Tok) bool {
	if len(a) != len(b) {
		return false
	}
	for i := range a {
		if a[i] != b[i] {
			return false
		}
	}
	return true
}

// norm removes what the recorded deviations touch: comments and the offsets of inserted semicolons
// (placement before/after a trailing comment) and, when dropBang is set, the semicolon XGo inserts
// after "!" and "...". Differences that survive normalisation are never attributed to a known finding.
func norm(ts []scanx.Tok, dropBang bool) []scanx.Tok {
	var out []scanx.Tok
	for i, t := range ts {
		if t.Kind == "COMMENT" {
			continue
		}
		if t.Kind == ";" && t.Lit == "\n" {
			if dropBang && afterBang(ts, i) {
				continue
			}
			t.Off = -1
		}
		out = append(out, t)
	}
	return out
}

// afterBang: the inserted semicolon ts[i] follows "!" or "..." (ILLEGAL tokens in between keep the
// pending-semicolon flag in both scanners).
func afterBang(ts []scanx.Tok, i int) bool {
	j := i - 1
	for j >= 0 && ts[j].Kind == "ILLEGAL" {
		j--
	}
	return j >= 0 && (ts[j].Kind == "!" || ts[j].Kind == "...")
}

func diffKey(x, g []scanx.Tok) (string, int) {
	n := len(g)
	if len(x) < n {
		n = len(x)
	}
	for i := 0; i < n; i++ {
		a, b := x[i], g[i]
		if a != b {
			key := "token:" + b.Kind + "→" + a.Kind
			if !(b.Kind == ";" && b.Lit == "\n") && a.Kind == ";" && a.Lit == "\n" && i > 0 {
				j := i - 1
				for j > 0 && x[j].Kind == "ILLEGAL" {
					j--
				}
				key = "extra-semicolon-after:" + x[j].Kind
			} else if a.Kind == b.Kind && a.Lit == b.Lit {
				key = "offset:" + a.Kind
			} else if a.Kind == b.Kind {
				key = "literal:" + a.Kind
			}
			return key, i
		}
	}
	if len(x) != len(g) {
		return "token-count", n
	}
	return "", -1
}

func eval(k Case) (fs []*engine.Failure, excl bool) {
	src := []byte(k.Src)
	g := scanx.Go(src, k.Comments)
	if excluded(src, g) {
		return nil, true
	}
	var x scanx.Result
	if f := engine.Guard(func() { x = scanx.XGo(src, k.Comments, nil) }); f != nil {
		return []*engine.Failure{f}, false
	}
	for _, t := range x.Toks {
		if xgoOnly[t.Kind] {
			return nil, true
		}
	}
	det := fmt.Sprintf("src=%q comments=%v\nxgo=%+v errs=%+v\ngo =%+v errs=%+v", k.Src, k.Comments, x.Toks, x.Errs, g.Toks, g.Errs)
	if key, _ := diffKey(x.Toks, g.Toks); key != "" {
		// attribute to recorded deviations only what their normalisation explains
		if !sameToks(onlyComments(x.Toks), onlyComments(g.Toks)) {
			fs = append(fs, &engine.Failure{Key: "comment-tokens", What: "comment tokens differ from go/scanner", Detail: det})
		}
		nx, ng := norm(x.Toks, true), norm(g.Toks, true)
		if k2, i := diffKey(nx, ng); k2 != "" {
			fs = append(fs, &engine.Failure{Key: k2, What: "token stream differs from go/scanner", Detail: fmt.Sprintf("normalised token %d; %s", i, det)})
		} else {
			if k3, _ := diffKey(norm(x.Toks, false), norm(g.Toks, false)); k3 != "" {
				fs = append(fs, &engine.Failure{Key: k3, What: "XGo inserts a semicolon where go/scanner does not", Detail: det})
			}
			// is the placement of an inserted semicolon relative to comments also different?
			var sx, sg []scanx.Tok
			for i, t := range x.Toks {
				if !(t.Kind == ";" && t.Lit == "\n" && afterBang(x.Toks, i)) {
					sx = append(sx, t)
				}
			}
			sg = g.Toks
			if !sameToks(sx, sg) {
				fs = append(fs, &engine.Failure{Key: "inserted-semicolon-before-trailing-comment", What: "inserted semicolon is positioned before a trailing comment (go/scanner since go1.20 positions it after)", Detail: det})
			}
		}
	}
	if len(x.Errs) != len(g.Errs) {
		fs = append(fs, &engine.Failure{Key: "error-count", What: "number of scan errors differs from go/scanner", Detail: det})
	} else {
		for i := range x.Errs {
			if x.Errs[i].Off != g.Errs[i].Off {
				fs = append(fs, &engine.Failure{Key: "error-offset", What: "scan error offset differs from go/scanner", Detail: det})
				break
			}
		}
	}
	return fs, false
}

var numAlpha = []byte("0189_.xboep+-afi")
var strAlpha = []byte("\"'`\\nx01ua{$\n")

func main() {
	c := engine.New("C16", "model_checking")
	if c.IsReplay() {
		var k Case
		c.LoadReplay(&k)
		fs, _ := eval(k)
		for _, f := range fs {
			if !c.IsKnown(f.Key) {
				c.ReplayResult(f)
			}
		}
		c.ReplayResult(nil)
	}
	nNum, nStr := 5, 4
	if c.Thorough() {
		nNum, nStr = 6, 5
	}
	type blk struct {
		alpha []byte
		first int
		max   int
	}
	var blocks []blk
	for i := range numAlpha {
		blocks = append(blocks, blk{numAlpha, i, nNum})
	}
	for i := range strAlpha {
		blocks = append(blocks, blk{strAlpha, i, nStr})
	}
	job := &engine.Job{NumBlocks: len(blocks)}
	job.RunBlock = func(w *engine.W, b int) {
		bl := blocks[b]
		A := len(bl.alpha)
		for n := 1; n <= bl.max; n++ {
			s := make([]byte, n)
			s[0] = bl.alpha[bl.first]
			idx := make([]int, n-1)
			for {
				for i, v := range idx {
					s[1+i] = bl.alpha[v]
				}
				k := Case{string(s), false}
				if w.Item(k) {
					fs, ex := eval(k)
					if ex {
						w.Hist("excluded_xgo_prefix_syntax")
					} else {
						w.Nontrivial()
						for _, f := range fs {
							w.Fail(k, f)
						}
					}
				}
				i := len(idx) - 1
				for ; i >= 0; i-- {
					idx[i]++
					if idx[i] < A {
						break
					}
					idx[i] = 0
				}
				if i < 0 {
					break
				}
			}
		}
		w.Sample(Case{string(bl.alpha[bl.first]) + string(bl.alpha[:3]), false})
	}
	if !c.IsWorker() {
		bfs(c)
	}
	job.Run(c)
	c.Rule = fmt.Sprintf("(B) BFS over product states (comment mode, XGo insertSemi, nParen clamp, last lexeme) with every (separator, Go lexeme) action, full token streams and error offsets compared with go/scanner; (E) every string of length 1..%d over %q and 1..%d over %q. Inputs where go/scanner sees a number immediately followed by an identifier/keyword, c/C/py immediately followed by a string (XGo-specific prefixes), or an illegal character (not a Go lexeme) are excluded and counted", nNum, string(numAlpha), nStr, string(strAlpha))
	c.Assumptions = []string{"go/scanner of the installed toolchain (go1.23) is the reference", "BFS canonicalisation as in C15; go/scanner's only cross-token state is insertSemi, which is observable through the compared token stream"}
	c.Finish()
}

type st struct {
	comments   bool
	insertSemi bool
	nParen     int
	last       int
	// trail: same-line block comments scanned after a token that left a semicolon pending. The
	// scanner decides about that semicolon by looking ahead past such comments (findLineEnd), so in
	// the witness the decision was taken against the end of input; the continuation decides again.
	// Such a state is therefore the pending state plus the comments, not the state after them.
	trail string
}

// inlineBlockComment: a /*...*/ comment without a line break (the only lexemes the scanner looks past).
func inlineBlockComment(lx string) bool {
	return strings.HasPrefix(lx, "/*") && strings.HasSuffix(lx, "*/") && len(lx) >= 4 && !strings.Contains(lx, "\n")
}

func clamp(n int) int {
	if n < -2 {
		return -2
	}
	if n > 3 {
		return 3
	}
	return n
}

func bfs(c *engine.Check) {
	type node struct {
		s       st
		witness string
	}
	seen := map[st]bool{}
	var queue []node
	maxTrail := 1
	if c.Thorough() {
		maxTrail = 2
	}
	for _, cm := range []bool{false, true} {
		s0 := st{cm, false, 0, -1, ""}
		seen[s0] = true
		queue = append(queue, node{s0, ""})
	}
	states, trans, excl := 0, 0, 0
	var sampleTrace []string
	for len(queue) > 0 {
		nd := queue[0]
		queue = queue[1:]
		states++
		for _, sep := range scanx.Seps {
			for li, lx := range scanx.Lexemes {
				if !lx.Go {
					continue
				}
				src := nd.witness + sep + lx.Text
				k := Case{src, nd.s.comments}
				trans++
				fs, ex := eval(k)
				if ex {
					excl++
					continue
				}
				bad := false
				for _, f := range fs {
					c.Violate(k, f)
					if !c.IsKnown(f.Key) {
						bad = true
					}
				}
				if bad {
					continue // do not expand through an unexplained difference
				}
				var end *scanx.State
				scanx.XGo([]byte(src), nd.s.comments, func(s *scanner.Scanner, t scanx.Tok) {
					if end == nil {
						if x := scanx.XGoState(s); x.Offset >= len(src) {
							end = &x
						}
					}
				})
				if end == nil {
					continue
				}
				ns := st{nd.s.comments, end.InsertSemi, clamp(end.NParen), li, ""}
				if nd.s.insertSemi && inlineBlockComment(lx.Text) && !strings.Contains(sep, "\n") {
					if strings.Count(nd.s.trail, "\x00") >= maxTrail {
						continue // the transition was evaluated; longer comment runs are not expanded
					}
					sc := sep
					if sc == "\t" {
						sc = " "
					}
					ns = nd.s
					ns.trail += sc + lx.Text + "\x00"
				}
				if !seen[ns] {
					seen[ns] = true
					queue = append(queue, node{ns, src})
					if len(sampleTrace) < 4 {
						sampleTrace = append(sampleTrace, fmt.Sprintf("%q -> %+v", src, ns))
					}
				}
			}
		}
	}
	c.Eval(int64(trans))
	c.NontrivialN(int64(trans - excl))
	c.Hist("bfs_excluded_xgo_prefix_syntax", int64(excl))
	c.Extra["states"] = states
	c.Extra["transitions"] = trans
	c.Extra["traces_validated_against_impl"] = trans
	c.Sample(map[string]any{"bfs_transition_examples": sampleTrace})
}

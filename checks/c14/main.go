// C14: valid Go files parse to the same syntax tree as with go/parser.
// Mode E: (1) every .go file of the repository that go/parser accepts, (2) a menu of self-contained,
// type-checked Go declarations/statements, every one alone, every ordered pair in one function body, and
// for the singles every whitespace variant (newline after each token that does not end a line in Go,
// one blank inserted / removed at every token boundary) that go/parser maps to the identical go/ast tree.
// Oracle: go/parser + go/types (premise) and a reflection comparison of the XGo tree with the go/ast tree.
package main

import (
	"fmt"
	goast "go/ast"
	"go/importer"
	goparser "go/parser"
	goscanner "go/scanner"
	gotoken "go/token"
	"go/types"
	"os"
	"reflect"
	"regexp"
	"strconv"
	"strings"

	"github.com/goplus/xgo/parser"
	"github.com/goplus/xgo/token"
	"verif/corpus"
	"verif/engine"
)

type Case struct {
	Src     string `json:"src,omitempty"`
	File    string `json:"file,omitempty"`    // repository file (Src is read from it)
	Feat    string `json:"feat,omitempty"`    // menu feature(s)
	Variant string `json:"variant,omitempty"` // whitespace variant class
}

// ---------------------------------------------------------------------------------------------
// tree comparison (x: XGo tree or go/ast tree, g: go/ast tree)

const xgoAst = "github.com/goplus/xgo/ast"

var ignoreField = map[string]bool{"Obj": true, "Scope": true, "Unresolved": true, "Comments": true, "Doc": true, "Comment": true,
	"Imports": true, "FileStart": true, "FileEnd": true, "GoVersion": true}

// positions whose validity is syntax
var posIsSyntax = map[string]bool{"CallExpr.Ellipsis": true, "TypeSpec.Assign": true, "GenDecl.Lparen": true}

// XGo-only fields that may be set on a tree parsed from Go source
var xgoOnlyAllowed = map[string]bool{"BasicLit.Extra": true, "File.Code": true, "File.ShadowEntry": true, "File.NoPkgDecl": true,
	"File.IsClass": true, "File.IsProj": true, "File.IsNormalGox": true, "FuncDecl.Operator": true, "FuncDecl.Shadow": true,
	"FuncDecl.IsClass": true, "FuncDecl.Static": true}

var goPosType = reflect.TypeOf(gotoken.NoPos)
var xPosType = reflect.TypeOf(token.NoPos)

type diff struct {
	At     string // <GoNodeType>.<Field>
	Path   string
	Detail string
	Kinds  string // "(GoType/XGoType)" when the difference is the node type
}

func typeName(v reflect.Value) string {
	for v.IsValid() && v.Kind() == reflect.Interface && !v.IsNil() {
		v = v.Elem()
	}
	if v.IsValid() && v.Kind() == reflect.Ptr && !v.IsNil() {
		return v.Type().Elem().Name()
	}
	return "nil"
}

func isNilable(v reflect.Value) bool {
	switch v.Kind() {
	case reflect.Ptr, reflect.Interface, reflect.Slice, reflect.Map:
		return true
	}
	return false
}

func describe(v reflect.Value) string {
	if !v.IsValid() {
		return "<none>"
	}
	for v.Kind() == reflect.Interface {
		if v.IsNil() {
			return "nil"
		}
		v = v.Elem()
	}
	if v.Kind() == reflect.Ptr {
		if v.IsNil() {
			return "nil"
		}
		s := "*" + v.Type().Elem().Name()
		e := v.Elem()
		if e.Kind() == reflect.Struct {
			if f := e.FieldByName("Name"); f.IsValid() && f.Kind() == reflect.String {
				s += "(" + f.String() + ")"
			} else if f := e.FieldByName("Value"); f.IsValid() && f.Kind() == reflect.String {
				s += "(" + f.String() + ")"
			} else if f := e.FieldByName("Op"); f.IsValid() {
				s += fmt.Sprintf("(%v)", f.Interface())
			} else if f := e.FieldByName("Tok"); f.IsValid() && f.Kind() != reflect.Struct {
				s += fmt.Sprintf("(%v)", f.Interface())
			}
		}
		return s
	}
	return fmt.Sprintf("%v", v.Interface())
}

func cmp(x, g reflect.Value, at, path string, depth int) *diff {
	if depth > 2000 {
		return &diff{at, path, "too deep", ""}
	}
	for g.Kind() == reflect.Interface {
		if g.IsNil() {
			for x.IsValid() && x.Kind() == reflect.Interface && !x.IsNil() {
				x = x.Elem()
			}
			if x.IsValid() && isNilable(x) && !x.IsNil() {
				return &diff{at, path, "go/parser: nil, XGo parser: " + describe(x), ""}
			}
			return nil
		}
		g = g.Elem()
	}
	for x.Kind() == reflect.Interface {
		if x.IsNil() {
			return &diff{at, path, "go/parser: " + describe(g) + ", XGo parser: nil", ""}
		}
		x = x.Elem()
	}
	switch g.Kind() {
	case reflect.Ptr:
		if x.Kind() != reflect.Ptr {
			return &diff{at, path, "go/parser: " + describe(g) + ", XGo parser: " + describe(x), ""}
		}
		if g.IsNil() || x.IsNil() {
			if g.IsNil() != x.IsNil() {
				return &diff{at, path, "go/parser: " + describe(g) + ", XGo parser: " + describe(x), ""}
			}
			return nil
		}
		gn, xn := g.Type().Elem().Name(), x.Type().Elem().Name()
		if gn != xn {
			return &diff{at, path, "go/parser: " + describe(g) + ", XGo parser: " + describe(x), "(" + gn + "/" + xn + ")"}
		}
		return cmp(x.Elem(), g.Elem(), at, path+"/"+gn, depth+1)
	case reflect.Struct:
		gt, xt := g.Type(), x.Type()
		if x.Kind() != reflect.Struct {
			return &diff{at, path, "kind mismatch", ""}
		}
		for i := 0; i < gt.NumField(); i++ {
			f := gt.Field(i)
			if !f.IsExported() || ignoreField[f.Name] {
				continue
			}
			fat := gt.Name() + "." + f.Name
			if f.Type == goPosType {
				if posIsSyntax[fat] {
					xf := x.FieldByName(f.Name)
					if !xf.IsValid() {
						return &diff{fat, path, "XGo node has no such field", ""}
					}
					if gv, xv := g.Field(i).Int() != 0, xf.Int() != 0; gv != xv {
						return &diff{fat, path + "." + f.Name, fmt.Sprintf("position validity: go/parser %v, XGo parser %v", gv, xv), ""}
					}
				}
				continue
			}
			if gt.Name() == "SendStmt" && f.Name == "Value" && xt.PkgPath() == xgoAst {
				vs := x.FieldByName("Values")
				if vs.Len() != 1 {
					return &diff{fat, path + ".Values", fmt.Sprintf("send statement with %d values", vs.Len()), ""}
				}
				if d := cmp(vs.Index(0), g.Field(i), fat, path+".Values[0]", depth+1); d != nil {
					return d
				}
				continue
			}
			xf := x.FieldByName(f.Name)
			if !xf.IsValid() {
				return &diff{fat, path, "XGo node has no such field", ""}
			}
			if d := cmp(xf, g.Field(i), fat, path+"."+f.Name, depth+1); d != nil {
				return d
			}
		}
		if xt.PkgPath() == xgoAst {
			for i := 0; i < xt.NumField(); i++ {
				f := xt.Field(i)
				if _, ok := gt.FieldByName(f.Name); ok || !f.IsExported() {
					continue
				}
				fat := xt.Name() + "." + f.Name
				if xgoOnlyAllowed[fat] || fat == "SendStmt.Values" {
					continue
				}
				if !x.Field(i).IsZero() {
					return &diff{fat, path + "." + f.Name, "XGo-only field is set on a tree parsed from Go source: " + describe(x.Field(i)), ""}
				}
			}
		}
		return nil
	case reflect.Slice:
		if x.Kind() != reflect.Slice {
			return &diff{at, path, "kind mismatch", ""}
		}
		n := g.Len()
		if x.Len() < n {
			n = x.Len()
		}
		for i := 0; i < n; i++ {
			if d := cmp(x.Index(i), g.Index(i), at, fmt.Sprintf("%s[%d]", path, i), depth+1); d != nil {
				return d
			}
		}
		if g.Len() != x.Len() {
			return &diff{at, path, fmt.Sprintf("length: go/parser %d, XGo parser %d", g.Len(), x.Len()), ""}
		}
		return nil
	case reflect.String:
		if x.Kind() != reflect.String || x.String() != g.String() {
			return &diff{at, path, fmt.Sprintf("go/parser %q, XGo parser %q", g.String(), describe(x)), ""}
		}
	case reflect.Bool:
		if x.Kind() != reflect.Bool || x.Bool() != g.Bool() {
			return &diff{at, path, fmt.Sprintf("go/parser %v, XGo parser %v", g.Bool(), describe(x)), ""}
		}
	case reflect.Int, reflect.Int8, reflect.Int16, reflect.Int32, reflect.Int64:
		if g.Type().Name() == "Token" {
			gs, xs := fmt.Sprint(g.Interface()), fmt.Sprint(x.Interface())
			if gs != xs {
				return &diff{at, path, fmt.Sprintf("token: go/parser %s, XGo parser %s", gs, xs), ""}
			}
			return nil
		}
		if !x.CanInt() || x.Int() != g.Int() {
			return &diff{at, path, fmt.Sprintf("go/parser %d, XGo parser %s", g.Int(), describe(x)), ""}
		}
	case reflect.Map:
		// none reachable outside ignored fields
	}
	return nil
}

// ---------------------------------------------------------------------------------------------

var reErrPos = regexp.MustCompile(`^[^ ]*:\d+:\d+: `)

func normErr(err error) string {
	s := err.Error()
	if i := strings.Index(s, " (and "); i >= 0 {
		s = s[:i]
	}
	s = reErrPos.ReplaceAllString(s, "")
	return s
}

// hasDollarString reports whether a string literal of src contains '$' (documented deviation: interpolation).
func hasDollarString(src []byte) bool {
	if !strings.Contains(string(src), "$") {
		return false
	}
	var s goscanner.Scanner
	fs := gotoken.NewFileSet()
	s.Init(fs.AddFile("", -1, len(src)), src, nil, 0)
	for {
		_, tok, lit := s.Scan()
		if tok == gotoken.EOF {
			return false
		}
		if tok == gotoken.STRING && strings.Contains(lit, "$") {
			return true
		}
	}
}

func parseGo(src []byte) (*goast.File, *gotoken.FileSet, error) {
	fs := gotoken.NewFileSet()
	f, err := goparser.ParseFile(fs, "a.go", src, goparser.ParseComments|goparser.SkipObjectResolution)
	return f, fs, err
}

// judge compares the XGo parser's result for src with the go/parser tree gf. prefix builds the keys.
func judge(src []byte, gf *goast.File, k Case) *engine.Failure {
	rejectKey, wsKey := "rejects:"+k.Feat, ""
	if k.Variant != "" {
		// the defect of a whitespace variant is the whitespace sensitivity at that token, whatever its symptom
		wsKey = "ws:" + k.Variant
		rejectKey = wsKey
	}
	for _, ep := range []struct {
		name string
		mode parser.Mode
	}{{"a.go", parser.ParseGoAsGoPlus | parser.ParseComments}, {"a.xgo", parser.ParseComments}, {"a.xgo", 0}} {
		var fail *engine.Failure
		g := engine.Guard(func() {
			xf, err := parser.ParseFile(token.NewFileSet(), ep.name, src, ep.mode)
			if err != nil {
				key := rejectKey
				if k.File != "" {
					key = corpusKey(src, err)
				}
				fail = &engine.Failure{Key: key, What: "the XGo parser rejects a Go file that go/parser accepts",
					Detail: fmt.Sprintf("parsed as %s mode %#x: %v\n%s", ep.name, uint(ep.mode), err, excerpt(src, err))}
				return
			}
			if d := cmp(reflect.ValueOf(xf), reflect.ValueOf(gf), "File", "", 0); d != nil {
				key := "tree:" + d.At + d.Kinds
				if wsKey != "" {
					key = wsKey
				}
				fail = &engine.Failure{Key: key, What: "the XGo parser builds a different tree than go/parser",
					Detail: fmt.Sprintf("parsed as %s mode %#x: at %s: %s\n%s", ep.name, uint(ep.mode), d.Path, d.Detail, srcOf(k, src))}
			}
		})
		if g != nil {
			g.Detail = srcOf(k, src) + "\n" + g.Detail
			return g
		}
		if fail != nil {
			return fail
		}
	}
	return nil
}

func srcOf(k Case, src []byte) string {
	if k.File != "" {
		return "file " + k.File
	}
	return "source:\n" + string(src)
}

var reGenFunc = regexp.MustCompile(`^func\s*(\([^)]*\)\s*)?\w+\[`)
var reGenType = regexp.MustCompile(`^\s*(type\s+)?\w+\[[^\]]+\s[^\]]+\]`)

// corpusKey maps the first error on a repository file to the construct (= defect) that the menu isolates;
// anything unrecognised is keyed by the normalised message.
func corpusKey(src []byte, err error) string {
	msg := normErr(err)
	line := ""
	if m := reLine.FindStringSubmatch(err.Error()); m != nil {
		n, _ := strconv.Atoi(m[1])
		if lines := strings.Split(string(src), "\n"); n >= 1 && n <= len(lines) {
			line = lines[n-1]
		}
	}
	switch {
	case msg == "expected '(', found '['" && reGenFunc.MatchString(line):
		return "rejects:generic-func-decl"
	case strings.HasPrefix(msg, "expected ']', found") && reGenType.MatchString(line):
		return "rejects:generic-type-decl"
	case strings.HasSuffix(msg, "found '|'") && strings.Contains(line, "|"):
		return "rejects:constraint-union"
	case strings.HasSuffix(msg, "found '~'") && strings.Contains(line, "~"):
		return "rejects:constraint-tilde"
	}
	return "rejects:corpus:" + msg
}

var reLine = regexp.MustCompile(`:(\d+):\d+: `)

func excerpt(src []byte, err error) string {
	m := reLine.FindStringSubmatch(err.Error())
	if m == nil {
		return ""
	}
	n, _ := strconv.Atoi(m[1])
	lines := strings.Split(string(src), "\n")
	lo, hi := n-2, n+1
	if lo < 0 {
		lo = 0
	}
	if hi > len(lines) {
		hi = len(lines)
	}
	return "near:\n" + strings.Join(lines[lo:hi], "\n")
}

var imp types.Importer
var impFset = gotoken.NewFileSet()

func typeCheck(gf *goast.File, fs *gotoken.FileSet) error {
	if imp == nil {
		imp = importer.ForCompiler(impFset, "source", nil)
	}
	var first error
	conf := types.Config{Importer: imp, Error: func(err error) {
		if first == nil {
			first = err
		}
	}}
	conf.Check("p", fs, []*goast.File{gf}, nil)
	return first
}

// eval: the complete judgement of one case (used by replay as well). premise reports why a case was not judged.
func eval(k Case) (fail *engine.Failure, premise string) {
	src := []byte(k.Src)
	if k.File != "" {
		b, err := os.ReadFile(k.File)
		if err != nil {
			return nil, "excluded_unreadable"
		}
		src = b
	}
	gf, fs, err := parseGo(src)
	if err != nil {
		return nil, "excluded_go_parser_rejects"
	}
	if hasDollarString(src) {
		return nil, "excluded_dollar_in_string_literal"
	}
	if k.File == "" && k.Variant == "" {
		if err := typeCheck(gf, fs); err != nil {
			if os.Getenv("C14_DEBUG") != "" {
				fmt.Fprintf(os.Stderr, "TYPECHECK %s: %v\n%s\n", k.Feat, err, k.Src)
			}
			return nil, "excluded_go_types_rejects"
		}
	}
	return judge(src, gf, k), ""
}

// ---------------------------------------------------------------------------------------------
// generated files

func build(idx ...int) string {
	var imps, tops, bodies []string
	for _, i := range idx {
		it := menu[i]
		r := strings.NewReplacer("§", strconv.Itoa(i))
		if it.Imp != "" {
			imps = append(imps, r.Replace(it.Imp))
		}
		if it.Top != "" {
			tops = append(tops, r.Replace(it.Top))
		}
		if it.Body != "" {
			bodies = append(bodies, r.Replace(it.Body))
		}
	}
	var b strings.Builder
	b.WriteString("package p\n\n")
	for _, s := range imps {
		b.WriteString(s + "\n")
	}
	for _, s := range tops {
		b.WriteString("\n" + s + "\n")
	}
	if len(bodies) > 0 {
		b.WriteString("\nfunc body() {\n")
		for _, s := range bodies {
			for _, l := range strings.Split(s, "\n") {
				b.WriteString("\t" + l + "\n")
			}
		}
		b.WriteString("}\n")
	}
	return b.String()
}

type tokInfo struct {
	off, end int
	tok      gotoken.Token
	auto     bool // automatically inserted semicolon
}

func scanGo(src []byte) []tokInfo {
	var s goscanner.Scanner
	fs := gotoken.NewFileSet()
	file := fs.AddFile("", -1, len(src))
	s.Init(file, src, nil, 0)
	var out []tokInfo
	for {
		pos, tok, lit := s.Scan()
		if tok == gotoken.EOF {
			return out
		}
		off := file.Offset(pos)
		ti := tokInfo{off: off, tok: tok}
		switch {
		case tok == gotoken.SEMICOLON && lit != ";":
			ti.auto = true
			ti.end = off
		case lit != "":
			ti.end = off + len(lit)
		default:
			ti.end = off + len(tok.String())
		}
		out = append(out, ti)
	}
}

func endsLine(t gotoken.Token) bool {
	switch t {
	case gotoken.IDENT, gotoken.INT, gotoken.FLOAT, gotoken.IMAG, gotoken.CHAR, gotoken.STRING, gotoken.BREAK, gotoken.CONTINUE,
		gotoken.FALLTHROUGH, gotoken.RETURN, gotoken.INC, gotoken.DEC, gotoken.RPAREN, gotoken.RBRACK, gotoken.RBRACE:
		return true
	}
	return false
}

func tokClass(t gotoken.Token) string {
	if t.IsLiteral() {
		return t.String()
	}
	return "'" + t.String() + "'"
}

type variant struct {
	class string
	src   string
}

// variants enumerates the whitespace variants of src; only those with the identical go/ast tree are kept by the caller.
func variants(src []byte) []variant {
	toks := scanGo(src)
	s := string(src)
	out := []variant{{"crlf-line-ends", strings.ReplaceAll(s, "\n", "\r\n")}, {"byte-order-mark", "\xef\xbb\xbf" + s},
		{"no-final-newline", strings.TrimRight(s, "\n")}, {"tabs-as-blanks", strings.ReplaceAll(s, "\t", " ")}}
	for i, t := range toks {
		if t.auto {
			continue
		}
		// newline after a token that does not end a line
		if !endsLine(t.tok) && t.end < len(s) && s[t.end] != '\n' {
			out = append(out, variant{"newline-after:" + tokClass(t.tok), s[:t.end] + "\n" + s[t.end:]})
		}
		if i+1 < len(toks) && !toks[i+1].auto {
			n := toks[i+1]
			between := s[t.end:n.off]
			switch {
			case between == "":
				out = append(out, variant{"blank-before:" + tokClass(n.tok), s[:t.end] + " " + s[n.off:]})
			case strings.Trim(between, " \t") == "":
				out = append(out, variant{"no-blank-after:" + tokClass(t.tok), s[:t.end] + s[n.off:]})
			}
		}
	}
	return out
}

func sameGoTree(a, b *goast.File) bool {
	return cmp(reflect.ValueOf(a), reflect.ValueOf(b), "File", "", 0) == nil
}

func main() {
	c := engine.New("C14", "exploration")
	if c.IsReplay() {
		var k Case
		c.LoadReplay(&k)
		f, _ := eval(k)
		c.ReplayResult(f)
	}
	npair := 40
	if c.Thorough() {
		npair = len(menu)
	}
	if npair > len(menu) {
		npair = len(menu)
	}
	run := func(k Case) (*engine.Failure, bool) {
		c.Eval(1)
		f, premise := eval(k)
		if premise != "" {
			c.Hist(premise, 1)
			return nil, false
		}
		return f, true
	}
	// (2a) singles
	singleFail := make([]*engine.Failure, len(menu))
	nVariants := 0
	for i, it := range menu {
		src := build(i)
		k := Case{Src: src, Feat: it.Feat}
		f, judged := run(k)
		if !judged {
			c.Violate(k, &engine.Failure{Key: "harness:menu-item-not-valid-go:" + it.Feat, What: "menu item is not accepted by go/parser + go/types (harness defect)", Detail: src})
			continue
		}
		c.Nontrivial(src)
		c.Hist("generated_single", 1)
		if i%11 == 3 {
			c.Sample(k)
		}
		if f != nil {
			singleFail[i] = f
			c.Hist("single_fails", 1)
			c.Violate(k, f)
			continue // variants of a failing item would repeat the same defect
		}
		// (2b) whitespace variants
		gf, _, _ := parseGo([]byte(src))
		for _, v := range variants([]byte(src)) {
			vf, _, err := parseGo([]byte(v.src))
			if err != nil || !sameGoTree(vf, gf) {
				c.Hist("variant_discarded_changes_go_tree", 1)
				continue
			}
			vk := Case{Src: v.src, Feat: it.Feat, Variant: v.class}
			f, judged := run(vk)
			if !judged {
				continue
			}
			nVariants++
			c.Nontrivial(v.src)
			c.Hist("generated_ws_variant", 1)
			if f != nil {
				c.Hist("ws_variant_fails", 1)
				if os.Getenv("C14_DEBUG") != "" {
					fmt.Fprintf(os.Stderr, "WSFAIL %s | %s | %s\n", f.Key, it.Feat, strings.SplitN(f.Detail, "\n", 2)[0])
				}
				c.Violate(vk, f)
			}
		}
	}
	// (2c) ordered pairs
	for i := 0; i < npair; i++ {
		for j := 0; j < npair; j++ {
			if i == j {
				continue
			}
			src := build(i, j)
			k := Case{Src: src, Feat: "pair:" + menu[i].Feat + "+" + menu[j].Feat}
			f, judged := run(k)
			if !judged {
				continue
			}
			c.Nontrivial(src)
			c.Hist("generated_pair", 1)
			if f == nil {
				continue
			}
			// a pair that contains a failing item shows that item's defect again
			if sf := singleFail[i]; sf != nil {
				f = sf
			} else if sf := singleFail[j]; sf != nil {
				f = sf
			}
			c.Hist("pair_fails", 1)
			c.Violate(k, f)
		}
	}
	// (1) repository corpus
	names, _ := corpus.AllGo(400000)
	for i, fn := range names {
		k := Case{File: fn}
		f, judged := run(k)
		if !judged {
			continue
		}
		c.Nontrivial(fn)
		c.Hist("premise_parse_only", 1)
		if i%97 == 5 {
			c.Sample(k)
		}
		if f != nil {
			c.Hist("corpus_fails", 1)
			c.Violate(k, f)
		}
	}
	c.Rule = fmt.Sprintf("(1) every .go file of the repository (<=400000 bytes) that go/parser accepts and that has no '$' in a string literal (premise: parse only); "+
		"(2) a menu of %d self-contained Go feature items, each accepted by go/parser and go/types: every item alone, every whitespace variant of every item "+
		"(newline after each token after which Go inserts no semicolon, one blank inserted at every token boundary without one, the blanks removed from every boundary that has some, and four whole-file variants: CRLF line ends, byte-order mark, no final newline, tabs as blanks; kept only when go/parser yields the identical tree), "+
		"and every ordered pair of the first %d items in one file and one function body. Each source is parsed as a.go (ParseGoAsGoPlus|ParseComments), a.xgo (ParseComments) and a.xgo (mode 0). "+
		"distinct_nontrivial = distinct judged source texts", len(menu), npair)
	c.Assumptions = []string{
		"same tree = same node type names, identifiers, literal kinds and values, operators/tokens, booleans, channel directions, child structure and order; positions, comments, objects/scopes are ignored, except the validity of CallExpr.Ellipsis, TypeSpec.Assign and GenDecl.Lparen",
		"go/ast SendStmt.Value corresponds to XGo SendStmt.Values of length 1; XGo-only fields must be zero except BasicLit.Extra, File.{Code,ShadowEntry,NoPkgDecl,IsClass,IsProj,IsNormalGox}, FuncDecl.{Operator,Shadow,IsClass,Static}",
		"documented deviation excluded and counted: any file with '$' inside a string literal (string interpolation)",
		"repository files are not type-checked (premise_parse_only); generated files are type-checked with go/types and the source importer",
		"keys: rejects:<construct> (menu item or repository file rejected; repository errors are mapped to the construct by error text and source line), tree:<GoNode>.<Field>(<GoKind>/<XGoKind>) (different tree), ws:<variant> (a whitespace variant of an item that itself agrees is rejected or parsed differently), rejects:pair:<a>+<b> (only the combination is rejected)",
	}
	c.Extra["bound"] = map[string]any{"menu_items": len(menu), "pair_items": npair, "ws_variants": nVariants, "corpus_files": len(names)}
	c.Finish()
}

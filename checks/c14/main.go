package main

import (
	"fmt"
	goast "go/ast"
	"reflect"

	"github.com/goplus/xgo/ast"
)

func main() {
	pairs := [][2]any{
		{ast.Field{}, goast.Field{}}, {ast.FieldList{}, goast.FieldList{}}, {ast.BadExpr{}, goast.BadExpr{}}, {ast.Ident{}, goast.Ident{}},
		{ast.Ellipsis{}, goast.Ellipsis{}}, {ast.BasicLit{}, goast.BasicLit{}}, {ast.FuncLit{}, goast.FuncLit{}}, {ast.CompositeLit{}, goast.CompositeLit{}},
		{ast.ParenExpr{}, goast.ParenExpr{}}, {ast.SelectorExpr{}, goast.SelectorExpr{}}, {ast.IndexExpr{}, goast.IndexExpr{}}, {ast.IndexListExpr{}, goast.IndexListExpr{}},
		{ast.SliceExpr{}, goast.SliceExpr{}}, {ast.TypeAssertExpr{}, goast.TypeAssertExpr{}}, {ast.CallExpr{}, goast.CallExpr{}}, {ast.StarExpr{}, goast.StarExpr{}},
		{ast.UnaryExpr{}, goast.UnaryExpr{}}, {ast.BinaryExpr{}, goast.BinaryExpr{}}, {ast.KeyValueExpr{}, goast.KeyValueExpr{}},
		{ast.ArrayType{}, goast.ArrayType{}}, {ast.StructType{}, goast.StructType{}}, {ast.FuncType{}, goast.FuncType{}}, {ast.InterfaceType{}, goast.InterfaceType{}},
		{ast.MapType{}, goast.MapType{}}, {ast.ChanType{}, goast.ChanType{}},
		{ast.BadStmt{}, goast.BadStmt{}}, {ast.DeclStmt{}, goast.DeclStmt{}}, {ast.EmptyStmt{}, goast.EmptyStmt{}}, {ast.LabeledStmt{}, goast.LabeledStmt{}},
		{ast.ExprStmt{}, goast.ExprStmt{}}, {ast.SendStmt{}, goast.SendStmt{}}, {ast.IncDecStmt{}, goast.IncDecStmt{}}, {ast.AssignStmt{}, goast.AssignStmt{}},
		{ast.GoStmt{}, goast.GoStmt{}}, {ast.DeferStmt{}, goast.DeferStmt{}}, {ast.ReturnStmt{}, goast.ReturnStmt{}}, {ast.BranchStmt{}, goast.BranchStmt{}},
		{ast.BlockStmt{}, goast.BlockStmt{}}, {ast.IfStmt{}, goast.IfStmt{}}, {ast.CaseClause{}, goast.CaseClause{}}, {ast.SwitchStmt{}, goast.SwitchStmt{}},
		{ast.TypeSwitchStmt{}, goast.TypeSwitchStmt{}}, {ast.CommClause{}, goast.CommClause{}}, {ast.SelectStmt{}, goast.SelectStmt{}}, {ast.ForStmt{}, goast.ForStmt{}},
		{ast.RangeStmt{}, goast.RangeStmt{}}, {ast.ImportSpec{}, goast.ImportSpec{}}, {ast.ValueSpec{}, goast.ValueSpec{}}, {ast.TypeSpec{}, goast.TypeSpec{}},
		{ast.BadDecl{}, goast.BadDecl{}}, {ast.GenDecl{}, goast.GenDecl{}}, {ast.FuncDecl{}, goast.FuncDecl{}}, {ast.File{}, goast.File{}},
	}
	for _, p := range pairs {
		x, g := reflect.TypeOf(p[0]), reflect.TypeOf(p[1])
		xf, gf := map[string]string{}, map[string]string{}
		for i := 0; i < x.NumField(); i++ {
			xf[x.Field(i).Name] = x.Field(i).Type.String()
		}
		for i := 0; i < g.NumField(); i++ {
			gf[g.Field(i).Name] = g.Field(i).Type.String()
		}
		for n, t := range xf {
			if _, ok := gf[n]; !ok {
				fmt.Printf("%s: xgo-only %s %s\n", x.Name(), n, t)
			}
		}
		for n, t := range gf {
			if _, ok := xf[n]; !ok {
				fmt.Printf("%s: go-only %s %s\n", x.Name(), n, t)
			}
		}
	}
}

package main

import (
	"fmt"
	"strings"
)

// The generator: every family enumerates its space completely; `thorough` only decides how many
// of the ten print functions the cross products (shadowing kind x print function) use.

const boundText = "fmt->builtin: the 10 functions of the table printFuncs (x/format/format.go) x 6 argument shapes x {statement, result used} + 12 further positions (defer, closure, method, value, nested, operand, return, initialiser, if-init, parenthesised) + 9 members of fmt that are not rewritten; " +
	"command style: 41 first-argument shapes x {fmt.Println, user function, method} + callee shapes, multi-line argument lists, 15 kinds of calls without arguments; " +
	"lower-cased calls: 26 groups of stdlib functions/methods, 11 positions, conversions to package types, unsafe, 12 forms of user methods, all 25 Go keywords as method names + 6 library names, 12 kinds of name collisions (field/method/function/variable, builtin methods of string and []string); " +
	"function literals: {0,1,2} params x {0,1,2} results x {one-line, single statement on own line, multi statement} x 9 rewritten destinations + 4 kept destinations, 30 special parameter lists/bodies/callees; " +
	"shadowing of the qualifier fmt: 22 binding kinds + 5 controls x print functions x {statement, result used}, scope leaks through case/comm clauses, package-level variable, 9 import forms; " +
	"shadowing of the target names echo/print/...: 10 names x 16 declaration kinds + 3 controls; 15 other uses of the import fmt (own files); file layouts; " +
	"excluded and counted (documented deviations of XGo from Go): `$` in string literals, field access next to a method of the capitalised name, and every name-collision unit whose UNCONVERTED Go text already behaves differently when it is compiled as XGo; " +
	"quick: 5 of the 10 print functions in the cross products (all 10 in the alias files), 4 of the 9 literal signatures, 2 of the 3 command-style callees, 3 of 6 alias names, 8 of 15 other uses of the import, 21 of 26 library groups"

// printFns is a copy of the table printFuncs in /repo/x/format/format.go (it is not exported).
var printFns = []string{"Errorf", "Print", "Printf", "Println", "Fprint", "Fprintf", "Fprintln", "Sprint", "Sprintf", "Sprintln"}

func target(fn string) string {
	if fn == "Println" {
		return "echo"
	}
	return strings.ToLower(fn[:1]) + fn[1:]
}

func isF(fn string) bool  { return strings.HasSuffix(fn, "f") }
func isFp(fn string) bool { return strings.HasPrefix(fn, "Fp") }
func isSp(fn string) bool { return strings.HasPrefix(fn, "Sp") }

type gen struct {
	thorough bool
	units    []Unit
	excl     map[string]int
}

// excluded counts constructs that are deliberately not generated (and why).
func (g *gen) excluded(why string, n int) {
	if g.excl == nil {
		g.excl = map[string]int{}
	}
	g.excl[why] += n
}

func (g *gen) add(key, name, env string, imports []string, decls, body string) *Unit {
	// "os" is listed by families in which only some print functions need it
	var im []string
	for _, i := range imports {
		if (i == "os" || i == "errors") && !strings.Contains(decls+body, i+".") {
			continue
		}
		im = append(im, i)
	}
	imports = im
	g.units = append(g.units, Unit{Key: key, Name: name, Env: env, Imports: imports, Decls: decls, Body: body})
	return &g.units[len(g.units)-1]
}

func imp(s ...string) []string { return s }

// fns returns the print functions the cross products use: all ten (thorough) or five (quick:
// one of each family Print*/Fprint*/Sprint*, Printf-like and Errorf).
func (g *gen) fns() []string {
	if g.thorough {
		return printFns
	}
	return []string{"Println", "Printf", "Fprint", "Sprintf", "Errorf"}
}

var excludedCounts map[string]int

func generate(thorough bool) []Unit {
	g := &gen{thorough: thorough}
	defer func() { excludedCounts = g.excl }()
	envs["plain"] = envT{}
	g.fmtShapes()
	g.fmtPositions()
	g.commandStyle()
	g.lowerCalls()
	g.lowerCollisions()
	g.funcLits()
	g.shadowQualifier()
	g.shadowTargets()
	g.importForms()
	g.unchangedGo()
	// XGo's documented deviations from Go are outside the supported subset (same rule as C01): the units
	// are enumerated, counted and not run
	n := len(g.units)
	g.dollarStrings() // "${...}" / "$$" inside a string literal is interpolation in XGo
	g.excluded("documented_deviation:dollar-in-string-literal", len(g.units)-n)
	g.units = g.units[:n]
	g.fieldVsMethod() // a lower-case member name is also looked up capitalised (p.name finds method Name)
	g.excluded("documented_deviation:auto-capitalised-member-lookup", len(g.units)-n)
	g.units = g.units[:n]
	return g.units
}

// ---------------------------------------------------------------------------------------------
// fmt print functions x argument shapes x {statement, expression}

func joinArgs(a ...string) string {
	var o []string
	for _, s := range a {
		if s != "" {
			o = append(o, s)
		}
	}
	return strings.Join(o, ", ")
}

type shape struct {
	name, pre, plain, format string // argument lists for Print-like and Printf-like functions
}

var shapes = []shape{
	{"none", "", ``, `""`},
	{"one-string", "", `"hello"`, `"hello"`},
	{"mixed", "", `"a", 1, 2.5, true, 'x', nil, []int{1, 2}, struct{ A int }{3}, "z"`, `"%v %v %v %v %v %v|%v\n", "a", 1, 2.5, true, 'x', nil, []string{"p", "q"}`},
	{"spread", "args := []any{\"s\", 7, false}\n", `args...`, `"%v-%v-%v", args...`},
	{"verbs", "", `"100%", "%d", "%%", 5`, `"%d|%5.2f|%s|%q|%v|%+v|%x|%t|%c|%U|%%|%08b|%-4d|%T|%6.2f%%", 42, 3.14159, "s", "q", []int{1}, struct{ A int }{1}, 255, true, 'G', 0x1F600, 5, 7, 1.5, 99.5`},
	{"verb-mismatch", "", `"%!d", 1, "x"`, `"%d %s|%z", "x"`},
}

// useStmt: the print call as a statement of its own (result unused); every unit ends its line.
func useStmt(q, fn, args string) (string, []string) {
	switch {
	case fn == "Println":
		return q + ".Println(" + args + ")", imp("fmt")
	case fn == "Print" || fn == "Printf":
		return q + "." + fn + "(" + args + ")\nfmt.Println()", imp("fmt")
	case isSp(fn) || fn == "Errorf":
		return q + "." + fn + "(" + args + ")\nfmt.Println(\"done\")", imp("fmt")
	default: // Fprint*
		return q + "." + fn + "(" + joinArgs("os.Stdout", args) + ")\nfmt.Println()", imp("fmt", "os")
	}
}

// useExpr: the results of the call are used.
func useExpr(q, fn, args string) (string, []string) {
	switch {
	case fn == "Print" || fn == "Printf" || fn == "Println":
		return "n, err := " + q + "." + fn + "(" + args + ")\nfmt.Println()\nfmt.Println(n, err)", imp("fmt")
	case isSp(fn):
		return "s := " + q + "." + fn + "(" + args + ")\nfmt.Println(len(s), s)", imp("fmt")
	case fn == "Errorf":
		return "err := " + q + ".Errorf(" + args + ")\nfmt.Println(err)", imp("fmt")
	default:
		return "var b bytes.Buffer\nn, err := " + q + "." + fn + "(" + joinArgs("&b", args) + ")\nfmt.Println(n, err, b.Len())\nfmt.Println(b.String())", imp("fmt", "bytes")
	}
}

func (g *gen) fmtShapes() {
	for _, sh := range shapes {
		for _, fn := range g.fns() {
			args := sh.plain
			if isF(fn) {
				args = sh.format
			}
			b, im := useStmt("fmt", fn, args)
			g.add("fmt-to-builtin/statement/"+sh.name, fn, "plain", im, "", sh.pre+b)
			b, im = useExpr("fmt", fn, args)
			g.add("fmt-to-builtin/expression/"+sh.name, fn, "plain", im, "", sh.pre+b)
		}
	}
}

// further syntactic positions of a print call / a print function value
func (g *gen) fmtPositions() {
	k := func(s string) string { return "fmt-to-builtin/position/" + s }
	for _, fn := range g.fns() {
		a := `"v", 1`
		if isF(fn) {
			a = `"v%d", 1`
		}
		w := ""
		if isFp(fn) {
			w = "os.Stdout"
		}
		call := "fmt." + fn + "(" + joinArgs(w, a) + ")"
		im := imp("fmt")
		if isFp(fn) {
			im = imp("fmt", "os")
		}
		// deferred
		g.add(k("defer"), fn, "plain", im, "", "defer fmt.Println(\"end\")\ndefer "+call+"\nfmt.Println(\"start\")")
		// inside a closure that is called / in a method body / in a nested block
		g.add(k("closure-body"), fn, "plain", im, "", "f := func() {\n\t"+call+"\n\tfmt.Println()\n}\nf()")
		g.add(k("method-body"), fn, "plain", im, "type t@@ struct{}\n\nfunc (t@@) run(n int) {\n\t"+call+"\n\tfmt.Println()\n}", "v := t@@{}\nv.run(1)")
		g.add(k("if-for-switch-bodies"), fn, "plain", im, "", "for i := 0; i < 2; i++ {\n\tif i == 1 {\n\t\t"+call+"\n\t} else {\n\t\tswitch i {\n\t\tcase 0:\n\t\t\t"+call+"\n\t\t}\n\t}\n}\nfmt.Println()")
		// the function as a value
		switch {
		case isSp(fn):
			g.add(k("function-value-assigned"), fn, "plain", im, "", "f := fmt."+fn+"\nfmt.Println(f("+a+"))")
			g.add(k("function-value-argument"), fn, "plain", im, "func callv@@(f func(string, ...any) string) string { return f(\"w%v\", 2) }\nfunc callw@@(f func(...any) string) string { return f(\"w\", 2) }",
				map[bool]string{true: "fmt.Println(callv@@(fmt." + fn + "))", false: "fmt.Println(callw@@(fmt." + fn + "))"}[isF(fn)])
			g.add(k("nested-argument"), fn, "plain", im, "", "fmt.Println(fmt."+fn+"("+a+"), len(fmt."+fn+"("+a+")))")
			g.add(k("operand"), fn, "plain", im, "", "s := fmt."+fn+"("+a+") + \"!\"\nfmt.Println(s, fmt."+fn+"("+a+")[0], []string{fmt."+fn+"("+a+")})")
			g.add(k("return-statement"), fn, "plain", im, "func ret@@() string {\n\treturn fmt."+fn+"("+a+")\n}", "fmt.Println(ret@@())")
			g.add(k("package-level-initialiser"), fn, "plain", im, "var g@@ = fmt."+fn+"("+a+")", "fmt.Println(g@@)")
			g.add(k("if-init"), fn, "plain", im, "", "if s := fmt."+fn+"("+a+"); len(s) > 0 {\n\tfmt.Println(s)\n}")
			g.add(k("parenthesised-function"), fn, "plain", im, "", "fmt.Println((fmt."+fn+")("+a+"))")
		case fn == "Errorf":
			g.add(k("function-value-assigned"), fn, "plain", im, "", "f := fmt.Errorf\nfmt.Println(f("+a+"))")
			g.add(k("nested-argument"), fn, "plain", imp("fmt", "errors"), "", "base := errors.New(\"base\")\nerr := fmt.Errorf(\"wrap %d: %w\", 1, base)\nfmt.Println(err, errors.Is(err, base), errors.Unwrap(err) == base, fmt.Errorf(\"in\").Error())")
			g.add(k("return-statement"), fn, "plain", im, "func ret@@() error {\n\treturn fmt.Errorf("+a+")\n}", "fmt.Println(ret@@())")
			g.add(k("package-level-initialiser"), fn, "plain", im, "var g@@ = fmt.Errorf("+a+")", "fmt.Println(g@@)")
			g.add(k("if-init"), fn, "plain", im, "", "if err := fmt.Errorf("+a+"); err != nil {\n\tfmt.Println(err)\n}")
		default:
			g.add(k("function-value-assigned"), fn, "plain", im, "", "f := fmt."+fn+"\nf("+joinArgs(w, a)+")\nfmt.Println()")
			g.add(k("if-init"), fn, "plain", im, "", "if n, err := "+call+"; err == nil {\n\tfmt.Println()\n\tfmt.Println(n)\n}")
			g.add(k("parenthesised-function"), fn, "plain", im, "", "(fmt."+fn+")("+joinArgs(w, a)+")\nfmt.Println()")
			g.add(k("return-statement"), fn, "plain", im, "func ret@@() (int, error) {\n\treturn "+call+"\n}", "n, err := ret@@()\nfmt.Println()\nfmt.Println(n, err)")
		}
	}
	// other members of package fmt are not rewritten (the import must stay)
	for _, c := range [][2]string{
		{"Sscan", "var a, b int\nn, err := fmt.Sscan(\"3 4\", &a, &b)\nfmt.Println(n, err, a, b)"},
		{"Sscanf", "var a int\nvar s string\nn, err := fmt.Sscanf(\"7-x\", \"%d-%s\", &a, &s)\nfmt.Println(n, err, a, s)"},
		{"Sscanln", "var a int\nn, err := fmt.Sscanln(\"9\", &a)\nfmt.Println(n, err, a)"},
		{"Fscan", "var a int\nn, err := fmt.Fscan(strings.NewReader(\"11\"), &a)\nfmt.Println(n, err, a)"},
		{"Append", "fmt.Println(string(fmt.Append(nil, \"a\", 1)))"},
		{"Appendf", "fmt.Println(string(fmt.Appendf([]byte(\"p\"), \"%03d\", 1)))"},
		{"Appendln", "fmt.Print(string(fmt.Appendln(nil, \"a\", 1)))"},
		{"Stringer", "var s fmt.Stringer = st@@{}\nfmt.Println(s.String(), s)"},
		{"Formatter-type-switch", "var x any = st@@{}\nswitch v := x.(type) {\ncase fmt.Stringer:\n\tfmt.Println(\"stringer\", v)\ndefault:\n\tfmt.Println(\"other\")\n}"},
	} {
		im := imp("fmt")
		if c[0] == "Fscan" {
			im = imp("fmt", "strings")
		}
		d := ""
		if strings.Contains(c[1], "st@@") {
			d = "type st@@ struct{}\n\nfunc (st@@) String() string { return \"ST\" }"
		}
		g.add("fmt-to-builtin/other-members-of-fmt", c[0], "plain", im, d, c[1])
	}
}

// ---------------------------------------------------------------------------------------------
// command style: `f(args)` as a statement is printed `f args`; the first argument decides whether
// that text still means a call.

func (g *gen) commandStyle() {
	type arg struct{ name, pre, expr string }
	args := []arg{
		{"identifier", "x := 5\n", "x"},
		{"string", "", `"s"`},
		{"rune", "", `'c'`},
		{"float", "", `1.5`},
		{"nil", "", `nil`},
		{"unary-minus", "", `-1`},
		{"unary-minus-identifier", "x := 5\n", `-x`},
		{"unary-plus", "", `+1`},
		{"unary-not", "b := false\n", `!b`},
		{"unary-xor", "x := 5\n", `^x`},
		{"dereference", "x := 5\np := &x\n", `*p`},
		{"address-of-composite", "", `&pt@@{1}`},
		{"receive", "ch := make(chan int, 2)\nch <- 7\nch <- 8\n", `<-ch`},
		{"parenthesised-product", "", `(1+2)*3`},
		{"parenthesised", "x := 5\n", `(x)`},
		{"slice-literal", "", `[]int{1}`},
		{"array-literal", "", `[2]int{1, 2}`},
		{"ellipsis-array-literal", "", `[...]int{1, 2}`},
		{"map-literal", "", `map[string]int{"a": 1}`},
		{"struct-literal", "", `pt@@{1}`},
		{"anonymous-struct-literal", "", `struct{ A int }{1}`},
		{"called-func-literal", "", `func() int { return 1 }()`},
		{"conversion-interface", "", `interface{}(1)`},
		{"conversion-any", "", `any(1)`},
		{"conversion-bytes", "", `[]byte("a")`},
		{"conversion-string", "", `string(rune(65))`},
		{"binary-minus", "x := 5\n", `x - 1`},
		{"binary-compare", "x := 5\n", `x == 1`},
		{"index", "xs := []int{4}\n", `xs[0]`},
		{"slice-expression", "xs := []int{4, 5}\n", `xs[1:]`},
		{"selector", "p := pt@@{2}\n", `p.A`},
		{"call", "", `len("ab")`},
		{"spread", "xs := []any{1, 2}\n", `xs...`},
		{"type-assertion", "var v any = 3\n", `v.(int)`},
		{"make", "", `make([]int, 2)`},
		{"call-of-parenthesised-callee", "f := func(n int) int { return n + 1 }\n", `(f)(1)`},
		{"call-of-received-func", "ch := make(chan func() string, 2)\ng := func() string { return \"sent\" }\nch <- g\nch <- g\n", `(<-ch)()`},
		{"method-of-parenthesised-value", "p := &pt@@{3}\n", `(*p).Get()`},
		{"conversion-parenthesised-type", "", `(int)(2.0)`},
		{"pointer-conversion", "x := 5\n", `*(*int)(&x)`},
		{"new-deref", "", `*new(int)`},
	}
	decl := "type pt@@ struct{ A int }\n\nfunc (p pt@@) Get() int { return p.A }\n\nfunc (pt@@) Show(a ...any) { fmt.Println(a...) }\n\nfunc show@@(a ...any) { fmt.Println(a...) }"
	for _, a := range args {
		for _, callee := range [][2]string{{"fmt.Println", "fmt.Println"}, {"user-function", "show@@"}, {"method", "pt@@{}.Show"}} {
			if callee[0] == "method" && !g.thorough {
				continue
			}
			fn := callee[1]
			pre := a.pre
			if callee[0] == "method" {
				pre += "r := pt@@{}\n"
				fn = "r.Show"
			}
			g.add("command-style/first-argument:"+a.name, callee[0], "plain", imp("fmt"), decl, pre+fn+"("+a.expr+")\n"+fn+"(\"second\", "+strings.TrimSuffix(a.expr, "...")+")")
		}
	}
	// calls that are statements but whose callee is not an identifier/selector keep their parentheses
	g.add("command-style/callee-shape", "func-literal", "plain", imp("fmt"), "", "func(a int) { fmt.Println(a) }(1)")
	g.add("command-style/callee-shape", "index", "plain", imp("fmt"), "", "fs := []func(int){func(a int) { fmt.Println(a) }}\nfs[0](2)")
	g.add("command-style/callee-shape", "call-result", "plain", imp("fmt"), "func mk@@() func(int) { return func(a int) { fmt.Println(a) } }", "mk@@()(3)")
	g.add("command-style/callee-shape", "parenthesised", "plain", imp("fmt"), "func sh@@(a int) { fmt.Println(a) }", "(sh@@)(4)")
	g.add("command-style/callee-shape", "no-arguments", "plain", imp("fmt"), "func sh@@() { fmt.Println(\"none\") }", "sh@@()\nfmt.Println()")
	g.add("command-style/callee-shape", "chained-selector", "plain", imp("fmt", "os"), "", "os.Stdout.WriteString(\"w\\n\")")
	g.add("command-style/callee-shape:parenthesised-receiver", "(&p).Inc(3)", "plain", imp("fmt"), "type cp@@ struct{ X int }\n\nfunc (p *cp@@) Inc(d int) { p.X += d }", "p := cp@@{}\n(&p).Inc(3)\nfmt.Println(p.X)")
	g.add("command-style/callee-shape:parenthesised-receiver", "(*T).Inc(&p, 5)", "plain", imp("fmt"), "type cp@@ struct{ X int }\n\nfunc (p *cp@@) Inc(d int) { p.X += d }", "p := cp@@{}\n(*cp@@).Inc(&p, 5)\nfmt.Println(p.X)")
	g.add("command-style/multi-line-arguments:no-trailing-comma", "fmt.Println", "plain", imp("fmt"), "", "fmt.Println(\"a\",\n\t\"b\",\n\t1)")
	g.add("command-style/multi-line-arguments:no-trailing-comma", "user function", "plain", imp("fmt"), "func sh@@(a ...any) { fmt.Println(a...) }", "sh@@(\"a\",\n\t\"b\")")
	g.add("command-style/multi-line-arguments:trailing-comma", "fmt.Println", "plain", imp("fmt"), "", "fmt.Println(\"a\",\n\t\"b\",\n\t1,\n)")
	g.add("command-style/multi-line-arguments:trailing-comma", "one argument per line", "plain", imp("fmt"), "", "fmt.Println(\n\t\"a\",\n\t\"b\",\n)")
	g.add("command-style/multi-line-arguments:trailing-comma", "user function", "plain", imp("fmt"), "func sh@@(a ...any) { fmt.Println(a...) }", "sh@@(\n\t\"a\",\n\t1,\n)")
	g.add("command-style/multi-line-arguments:composite-literal-over-lines", "fmt.Println", "plain", imp("fmt"), "", "fmt.Println([]int{\n\t1,\n\t2,\n}, map[string]int{\n\t\"k\": 1,\n})")
	g.add("command-style/multi-line-arguments:expression-position-control", "fmt.Sprint over lines", "plain", imp("fmt"), "", "s := fmt.Sprint(\"a\",\n\t\"b\",\n\t1,\n)\nfmt.Println(s)")
	// calls without arguments: `f()` is printed `f`
	naPieces := [][2]string{ // declarations a unit of this family may refer to (only those it names are included)
		{"na@@", "type na@@ struct{ f func() }"},
		{".Run()", "func (na@@) Run() { fmt.Println(\"run\") }"},
		{".run2()", "func (na@@) run2() { fmt.Println(\"run2\") }"},
		{"mk@@", "func mk@@() na@@ { return na@@{} }"},
		{"plain@@", "func plain@@() { fmt.Println(\"plain\") }"},
		{"pf@@", "func pf@@(f func()) {\n\tf()\n\tfmt.Println(\"after\")\n}"},
	}
	for _, x := range [][2]string{
		{"function", "plain@@()"},
		{"method-of-variable", "v := na@@{}\nv.Run()\nv.run2()"},
		{"method-of-pointer-variable", "v := &na@@{}\nv.Run()"},
		{"method-of-composite-literal", "na@@{}.Run()"},
		{"method-of-call-result", "mk@@().Run()"},
		{"method-of-index-expression", "vs := []na@@{{}}\nvs[0].Run()"},
		{"unexported-method-of-composite-literal", "na@@{}.run2()"},
		{"unexported-method-of-call-result", "mk@@().run2()"},
		{"unexported-method-of-index-expression", "vs := []na@@{{}}\nvs[0].run2()"},
		{"unexported-method-of-parenthesised-value", "v := &na@@{}\n(*v).run2()"},
		{"func-typed-local-variable", "f := func() { fmt.Println(\"local\") }\nf()"},
		{"func-typed-struct-field", "v := na@@{f: func() { fmt.Println(\"field\") }}\nv.f()"},
		{"func-typed-parameter", "pf@@(func() { fmt.Println(\"param\") })"},
		{"value-of-named-func-type", "var g nf@@ = func() { fmt.Println(\"named\") }\ng()"},
		{"parameter-of-named-func-type", "np@@(func() { fmt.Println(\"named-param\") })"},
		{"receiver-of-named-func-type", "nf@@(func() { fmt.Println(\"named-recv\") }).Do(1)"},
		{"package-function", "os.Stdout.Sync()\nfmt.Println(\"synced\")"},
		{"fmt.Println", "fmt.Println()\nfmt.Println(\"x\")"},
		{"last-statement-of-one-line-function", "ol@@()"},
	} {
		if strings.Contains(x[1], "ol@@") {
			x[1] += "\n_ = plain@@"
		}
		d := ""
		if strings.Contains(x[1], "mk@@") || strings.Contains(x[1], ".Run()") || strings.Contains(x[1], ".run2()") {
			x[1] += "\n_ = na@@{}"
		}
		for _, pc := range naPieces {
			if strings.Contains(x[1], pc[0]) {
				d += pc[1] + "\n\n"
			}
		}
		if strings.Contains(x[1], "nf@@") || strings.Contains(x[1], "np@@") {
			d += "type nf@@ func()"
		}
		if strings.Contains(x[1], "np@@") {
			d += "\n\nfunc np@@(g nf@@) {\n\tg()\n\tfmt.Println(\"after\")\n}"
		}
		if strings.Contains(x[1], ".Do(1)") {
			d += "\n\nfunc (g nf@@) Do(n int) {\n\tg()\n\tfmt.Println(n)\n}"
		}
		if strings.Contains(x[1], "ol@@") {
			d += "\n\nfunc ol@@() { plain@@() }"
		}
		key := "command-style/no-arguments:" + x[0]
		if strings.HasSuffix(x[0], "-of-named-func-type") {
			key = "command-style/no-arguments:value-of-named-func-type"
		}
		if strings.HasPrefix(x[0], "unexported-method-of-") {
			key = "command-style/no-arguments:unexported-method-of-non-identifier-receiver"
		}
		g.add(key, x[0], "plain", imp("fmt", "os"), d, x[1])
	}
}

// ---------------------------------------------------------------------------------------------
// pkg.Func(...) and x.Method(...) calls get a lower-case first letter

var goKeywords = []string{"break", "case", "chan", "const", "continue", "default", "defer", "else", "fallthrough", "for", "func", "go", "goto", "if", "import", "interface", "map", "package", "range", "return", "select", "struct", "switch", "type", "var"}

func title(s string) string { return strings.ToUpper(s[:1]) + s[1:] }

func (g *gen) lowerCalls() {
	type c struct {
		name string
		imps []string
		body string
	}
	k := "lowercase-call/package-function"
	for _, x := range []c{
		{"strings.ToUpper", imp("fmt", "strings"), `fmt.Println(strings.ToUpper("abc"), strings.ToLower("ABC"), strings.Repeat("ab", 3))`},
		{"strings.Contains", imp("fmt", "strings"), `fmt.Println(strings.Contains("abc", "b"), strings.HasPrefix("abc", "ab"), strings.HasSuffix("abc", "x"), strings.Index("abc", "c"), strings.Count("aaa", "a"), strings.EqualFold("Go", "GO"))`},
		{"strings.Split", imp("fmt", "strings"), `fmt.Println(strings.Split("a,b,c", ","), strings.Join([]string{"x", "y"}, "-"), strings.Fields(" a b  c "), len(strings.SplitN("a,b,c", ",", 2)))`},
		{"strings.TrimSpace", imp("fmt", "strings"), `fmt.Println(strings.TrimSpace("  a "), strings.Trim("xxaxx", "x"), strings.TrimLeft("xxa", "x"), strings.TrimPrefix("prefix", "pre"), strings.Replace("aaa", "a", "b", 2), strings.ReplaceAll("aaa", "a", "c"))`},
		{"strings.NewReplacer", imp("fmt", "strings"), `fmt.Println(strings.NewReplacer("a", "1", "b", "2").Replace("abc"))`},
		{"strings.Builder", imp("fmt", "strings"), "var sb strings.Builder\nsb.WriteString(\"ab\")\nsb.WriteByte('c')\nsb.WriteRune('d')\nfmt.Println(sb.String(), sb.Len())"},
		{"strings.NewReader", imp("fmt", "strings"), "r := strings.NewReader(\"xyz\")\nb, _ := r.ReadByte()\nfmt.Println(b, r.Len(), r.Size())"},
		{"strings.Title", imp("fmt", "strings"), `fmt.Println(strings.Title("go lang"), strings.ToTitle("go"))`},
		{"strconv.Itoa", imp("fmt", "strconv"), `fmt.Println(strconv.Itoa(42)+"!", strconv.Quote("a\"b"), strconv.FormatInt(255, 16), strconv.FormatBool(true), strconv.FormatFloat(1.5, 'f', 2, 64))`},
		{"strconv.Atoi", imp("fmt", "strconv"), "n, err := strconv.Atoi(\"12\")\nfmt.Println(n, err)\n_, err = strconv.Atoi(\"x\")\nfmt.Println(err)\nb, _ := strconv.ParseBool(\"true\")\nf, _ := strconv.ParseFloat(\"2.5\", 64)\nfmt.Println(b, f)"},
		{"sort.Ints", imp("fmt", "sort"), "xs := []int{3, 1, 2}\nsort.Ints(xs)\nss := []string{\"b\", \"a\"}\nsort.Strings(ss)\nfmt.Println(xs, ss, sort.SearchInts(xs, 2), sort.IntsAreSorted(xs))"},
		{"math.Abs", imp("fmt", "math"), `fmt.Println(math.Abs(-2.5), math.Max(1, 2), math.Sqrt(16), math.Floor(2.7), math.Pow(2, 10), math.MaxInt8, math.Inf(1), math.IsNaN(math.NaN()), math.Pi > 3)`},
		{"os.Getenv", imp("fmt", "os"), `fmt.Println(os.Getenv("C25_UNSET") == "", len(os.Args) > 0)` + "\nv, ok := os.LookupEnv(\"C25_UNSET\")\nfmt.Println(v, ok)"},
		{"errors.New", imp("fmt", "errors"), "e1 := errors.New(\"e1\")\ne2 := errors.Join(e1, errors.New(\"e2\"))\nfmt.Println(e1, errors.Is(e2, e1), errors.Unwrap(e1) == nil)"},
		{"bytes.NewBufferString", imp("fmt", "bytes"), "b := bytes.NewBufferString(\"ab\")\nb.WriteString(\"cd\")\nb.WriteByte('e')\nfmt.Println(b.String(), b.Len(), string(bytes.ToUpper([]byte(\"x\"))), bytes.Contains([]byte(\"abc\"), []byte(\"b\")))"},
		{"unicode.IsUpper", imp("fmt", "unicode", "unicode/utf8"), `fmt.Println(unicode.IsUpper('A'), string(unicode.ToLower('Q')), utf8.RuneCountInString("héllo"), utf8.RuneLen('é'))`},
		{"time.Unix", imp("fmt", "time"), `fmt.Println(time.Unix(0, 0).UTC().Year(), time.Unix(86400, 0).UTC().Weekday(), time.Unix(0, 0).UTC().Format("2006-01-02"), (90 * time.Minute).Hours())`},
		{"rand.New", imp("fmt", "math/rand"), "r := rand.New(rand.NewSource(1))\nfmt.Println(r.Intn(100), r.Intn(100), r.Perm(4))"},
		{"json.Marshal", imp("fmt", "encoding/json"), "b, err := json.Marshal(map[string]any{\"b\": 1, \"a\": []int{2}})\nfmt.Println(string(b), err)\nvar v struct{ A int }\nerr = json.Unmarshal([]byte(`{\"A\": 5}`), &v)\nfmt.Println(v.A, err)"},
		{"filepath.Join", imp("fmt", "path/filepath"), `fmt.Println(filepath.Join("a", "b"), filepath.Base("/x/y.go"), filepath.Ext("y.go"))`},
		{"regexp.MustCompile", imp("fmt", "regexp"), "re := regexp.MustCompile(`a+`)\nfmt.Println(re.FindString(\"caaat\"), re.MatchString(\"b\"), re.ReplaceAllString(\"aab\", \"x\"), re.FindAllStringIndex(\"a aa\", -1))"},
		{"reflect.TypeOf", imp("fmt", "reflect"), `fmt.Println(reflect.TypeOf(1).Kind(), reflect.TypeOf("s").String(), reflect.ValueOf(7).Int(), reflect.DeepEqual([]int{1}, []int{1}))`},
		{"sync.Mutex", imp("fmt", "sync"), "var mu sync.Mutex\nmu.Lock()\nfmt.Println(\"locked\")\nmu.Unlock()\nvar once sync.Once\nonce.Do(func() { fmt.Println(\"once\") })\nonce.Do(func() { fmt.Println(\"twice\") })"},
		{"slices.Sort", imp("fmt", "slices"), "xs := []int{3, 1, 2}\nslices.Sort(xs)\nfmt.Println(xs, slices.Contains(xs, 2), slices.Index(xs, 3), slices.Max(xs))"},
		{"os.Stdout.WriteString", imp("os"), "os.Stdout.WriteString(\"direct\\n\")\nos.Stdout.Write([]byte(\"bytes\\n\"))"},
	} {
		if !g.thorough && strings.Contains("rand.New json.Marshal filepath.Join regexp.MustCompile unicode.IsUpper", x.name) {
			continue // quick: fewer library packages to load (bytes stays: Fprint units use it)
		}
		g.add(k, x.name, "plain", x.imps, "", x.body)
	}
	// positions of a package function / method
	k = "lowercase-call/position"
	for _, x := range []c{
		{"statement", imp("fmt", "sort"), "xs := []int{2, 1}\nsort.Ints(xs)\nfmt.Println(xs)"},
		{"deferred", imp("fmt", "sort"), "xs := []int{2, 1}\nfunc() {\n\tdefer sort.Ints(xs)\n}()\nfmt.Println(xs)"},
		{"function-value-assigned", imp("fmt", "strings"), "f := strings.ToUpper\nfmt.Println(f(\"v\"))"},
		{"function-value-argument", imp("fmt", "strings"), "fmt.Println(strings.TrimFunc(\"xax\", unicodeUp@@), ap@@(strings.ToUpper, \"q\"))"},
		{"function-values-in-composite", imp("fmt", "strings"), "fs := []func(string) string{strings.ToUpper, strings.ToLower, strings.TrimSpace}\nfor _, f := range fs {\n\tfmt.Println(f(\" Ab \"))\n}"},
		{"method-value", imp("fmt", "strings"), "var sb strings.Builder\nw := sb.WriteString\nw(\"mv\")\nfmt.Println(sb.String())"},
		{"method-expression", imp("fmt", "strings"), "r := strings.NewReplacer(\"a\", \"b\")\nf := (*strings.Replacer).Replace\nfmt.Println(f(r, \"aa\"), (*strings.Replacer).Replace(r, \"ca\"))"},
		{"nested-calls", imp("fmt", "strings", "strconv"), `fmt.Println(strings.Repeat(strings.ToUpper(strconv.Itoa(12)), len(strings.Split("a b", " "))))`},
		{"package-level-initialiser", imp("fmt", "strings"), "fmt.Println(gv@@)"},
		{"chained-methods", imp("fmt", "strings"), `fmt.Println(strings.NewReplacer("a", "b").Replace(strings.NewReplacer("c", "a").Replace("ca")), strings.NewReader("aa").Len())`},
		{"go-statement-free-closure", imp("fmt", "strings"), "f := func(s string) string { return strings.ToUpper(s) + strings.ToLower(s) }\nfmt.Println(f(\"Ab\"))"},
	} {
		d := ""
		if strings.Contains(x.body, "unicodeUp@@") {
			d = "func unicodeUp@@(r rune) bool { return r == 'x' }\n\nfunc ap@@(f func(string) string, s string) string { return f(s) }"
		}
		if strings.Contains(x.body, "gv@@") {
			d = "var gv@@ = strings.ToUpper(\"init\") + strings.Repeat(\"-\", 2)"
		}
		g.add(k, x.name, "plain", x.imps, d, x.body)
	}
	// conversions to a package-level type look like calls
	k = "lowercase-call/conversion-to-package-type"
	g.add(k, "sort.IntSlice", "plain", imp("fmt", "sort"), "", "xs := []int{1, 3, 2}\nsort.Sort(sort.Reverse(sort.IntSlice(xs)))\nfmt.Println(xs)")
	g.add(k, "sort.StringSlice", "plain", imp("fmt", "sort"), "", "ss := []string{\"b\", \"a\"}\nsort.Sort(sort.StringSlice(ss))\nfmt.Println(ss, sort.StringSlice(ss).Len())")
	g.add(k, "time.Duration", "plain", imp("fmt", "time"), "", "fmt.Println(time.Duration(1500)*time.Millisecond, time.Duration(3))")
	g.add(k, "time.Month", "plain", imp("fmt", "time"), "", "fmt.Println(time.Month(3), time.Weekday(2))")
	g.add(k, "os.FileMode", "plain", imp("fmt", "os"), "", "fmt.Println(os.FileMode(0644))")
	g.add(k, "strings.Builder-pointer", "plain", imp("fmt", "strings"), "", "p := (*strings.Builder)(nil)\nfmt.Println(p == nil)")
	g.add(k, "fmt.Stringer (own file: the only use of the import)", "solo:conv-stringer", imp("fmt"), "type sg@@ struct{}\n\nfunc (sg@@) String() string { return \"sg\" }", "fmt.Println(fmt.Stringer(sg@@{}))")
	g.add(k, "reflect.Kind", "plain", imp("fmt", "reflect"), "", "fmt.Println(reflect.Kind(2), reflect.Kind(24))")
	g.add("lowercase-call/unsafe-function", "unsafe.Sizeof", "plain", imp("fmt", "unsafe"), "type us@@ struct {\n\ta int32\n\tb int64\n}", "var v us@@\nfmt.Println(unsafe.Sizeof(int64(0)), unsafe.Sizeof(v), unsafe.Offsetof(v.b), unsafe.Alignof(v.a))")
	g.add("lowercase-call/generic-package-function", "inferred instantiation", "plain", imp("fmt", "slices"), "", "xs := []int{2, 9, 4}\nfmt.Println(slices.Max(xs), slices.Index(xs, 9))\nslices.Reverse(xs)\nfmt.Println(xs)")
	g.excluded("explicit_instantiation_of_generic_function(converter_says_TODO)", 1) // slices.Max[[]int](xs): formatType panics with "TODO: format - *ast.IndexListExpr"
	g.excluded("declaration_of_generic_function_or_type(not_in_the_XGo_grammar)", 5) // func f[T any](...): the XGo parser rejects it

	// methods, fields and interfaces of user types
	k = "lowercase-call/user-method"
	ty := "type pt@@ struct {\n\tX     int\n\tApply func(int) int\n}\n\nfunc (p pt@@) Name() string { return \"pt\" }\n\nfunc (p *pt@@) Inc(d int) { p.X += d }\n\nfunc (p pt@@) Sum(a, b int) int { return p.X + a + b }\n\ntype namer@@ interface{ Name() string }\n\ntype wrap@@ struct {\n\tpt@@\n\tIn *pt@@\n}\n\nfunc newPt@@(x int) *pt@@ { return &pt@@{X: x} }"
	for _, x := range []c{
		{"value-receiver", nil, "p := pt@@{X: 1}\nfmt.Println(p.Name(), p.Sum(1, 2))"},
		{"pointer-receiver-statement", nil, "p := pt@@{X: 1}\np.Inc(2)\nq := &p\nq.Inc(3)\nfmt.Println(p.X)"},
		{"pointer-variable", nil, "p := newPt@@(4)\np.Inc(1)\nfmt.Println(p.Name(), p.X, newPt@@(2).Sum(1, 1))"},
		{"interface-method", nil, "var n namer@@ = pt@@{}\nfmt.Println(n.Name())\nvar e error = errT@@{}\nfmt.Println(e.Error())"},
		{"embedded-promoted", nil, "w := wrap@@{pt@@{X: 5}, newPt@@(6)}\nw.Inc(1)\nw.In.Inc(2)\nfmt.Println(w.Name(), w.Sum(0, 0), w.In.Sum(0, 0), w.pt@@.Name())"},
		{"method-value", nil, "p := pt@@{X: 2}\nf := p.Sum\ng := p.Name\nfmt.Println(f(1, 1), g())"},
		{"method-expression", nil, "p := pt@@{X: 2}\nfmt.Println(pt@@.Name(p), pt@@.Sum(p, 1, 1))\nfmt.Println(p.X)"},
		{"call-on-call-result", nil, "fmt.Println(newPt@@(1).Name(), mk@@()().Name())"},
		{"call-on-index-and-map", nil, "ps := []pt@@{{X: 1}}\nm := map[string]*pt@@{\"a\": newPt@@(3)}\nm[\"a\"].Inc(1)\nfmt.Println(ps[0].Name(), m[\"a\"].X)"},
		{"call-on-composite-literal", nil, "fmt.Println(pt@@{X: 9}.Sum(0, 0), (&pt@@{}).Name())"},
		{"call-on-type-assertion", nil, "var v any = pt@@{X: 3}\nfmt.Println(v.(pt@@).Sum(0, 0), v.(namer@@).Name())"},
		{"stringer-used-by-fmt", nil, "fmt.Println(errT@@{}, strT@@(3))"},
	} {
		g.add(k, x.name, "plain", imp("fmt"), ty+"\n\nfunc mk@@() func() pt@@ { return func() pt@@ { return pt@@{} } }\n\ntype errT@@ struct{}\n\nfunc (errT@@) Error() string { return \"errT\" }\n\ntype strT@@ int\n\nfunc (s strT@@) String() string { return \"strT\" }", x.body)
	}
	g.add("lowercase-call/call-of-exported-func-typed-field", "p.Apply(2)", "plain", imp("fmt"), "type fa@@ struct{ Apply func(int) int }", "p := fa@@{Apply: func(n int) int { return n * 3 }}\nfmt.Println(p.Apply(2))")
	g.add("lowercase-call/call-of-exported-func-typed-field", "statement p.Apply(2)", "plain", imp("fmt"), "type fa@@ struct{ Apply func(int) }", "p := &fa@@{Apply: func(n int) { fmt.Println(n * 3) }}\np.Apply(2)")
	g.add("lowercase-call/call-of-exported-func-typed-field", "package-level variable of a library: flag.Usage()", "plain", imp("fmt", "flag"), "", "flag.Usage = func() { fmt.Println(\"custom usage\") }\nflag.Usage()\nfmt.Println(\"after\")")
	// a call of a package-level function of the program itself is an identifier call: untouched
	g.add("lowercase-call/own-package-function", "both-cases-declared", "plain", imp("fmt"), "func Foo@@() string { return \"upper\" }\n\nfunc foo@@() string { return \"lower\" }", "fmt.Println(Foo@@(), foo@@())\nFoo@@()\nfoo@@()")
	g.add("lowercase-call/own-package-function", "exported-only", "plain", imp("fmt"), "func Bar@@(a int) int { return a + 1 }\n\nvar BarV@@ = func(a int) int { return a + 2 }", "fmt.Println(Bar@@(1), BarV@@(1))")

	// every Go keyword as a method name: x.Type() -> x.type()
	for _, kw := range goKeywords {
		m := title(kw)
		g.add("lowercase-call/name-becomes-keyword", "method "+m, "plain", imp("fmt"),
			"type kw@@ struct{}\n\nfunc (kw@@) "+m+"(a int) int { return a + 1 }", "var v kw@@\nfmt.Println(v."+m+"(1))\nv."+m+"(2)")
	}
	k = "lowercase-call/name-becomes-keyword"
	g.add(k, "strings.Map", "plain", imp("fmt", "strings"), "func up@@(r rune) rune { return r - 32 }", "fmt.Println(strings.Map(up@@, \"abc\"))")
	g.add(k, "bytes.Map", "plain", imp("fmt", "bytes"), "func up@@(r rune) rune { return r - 32 }", "fmt.Println(string(bytes.Map(up@@, []byte(\"abc\"))))")
	g.add(k, "reflect.Value.Type", "plain", imp("fmt", "reflect"), "", "fmt.Println(reflect.ValueOf(1).Type())")
	g.add(k, "reflect.Value.Interface", "plain", imp("fmt", "reflect"), "", "fmt.Println(reflect.ValueOf(\"i\").Interface())")
	g.add(k, "sync.Map.Range", "plain", imp("fmt", "sync"), "func vis@@(k, v any) bool {\n\tfmt.Println(k, v)\n\treturn true\n}", "var m sync.Map\nm.Store(1, \"one\")\nm.Range(vis@@)")
	g.add(k, "flag.Var", "plain", imp("fmt", "flag"), "type fv@@ struct{ s string }\n\nfunc (f *fv@@) String() string { return f.s }\n\nfunc (f *fv@@) Set(s string) error {\n\tf.s = s\n\treturn nil\n}", "fs := flag.NewFlagSet(\"x\", flag.ContinueOnError)\nv := &fv@@{}\nfs.Var(v, \"name\", \"usage\")\nerr := fs.Parse([]string{\"-name\", \"val\"})\nfmt.Println(v.s, err)")
}

// ---------------------------------------------------------------------------------------------
// lower-casing x declarations of the program that own the lower-case name

func (g *gen) lowerCollisions() {
	k := func(s string) string { return "lowercase-call/collision:" + s }
	g.add(k("field-name-and-method-Name"), "string field", "plain", imp("fmt"),
		"type nm@@ struct{ name string }\n\nfunc (p nm@@) Name() string { return \"method\" }", "p := nm@@{name: \"field\"}\nfmt.Println(p.Name())")
	g.add(k("func-field-name-and-method-Name"), "func-typed field", "plain", imp("fmt"),
		"type nm@@ struct{ name func() string }\n\nfunc (p nm@@) Name() string { return \"method\" }", "p := nm@@{name: func() string { return \"field\" }}\nfmt.Println(p.Name(), p.name())")
	g.add(k("methods-name-and-Name"), "value receiver", "plain", imp("fmt"),
		"type nm@@ struct{}\n\nfunc (nm@@) Name() string { return \"exported\" }\n\nfunc (nm@@) name() string { return \"unexported\" }", "var p nm@@\nfmt.Println(p.Name(), p.name())")
	g.add(k("methods-name-and-Name"), "statement", "plain", imp("fmt"),
		"type nm@@ struct{}\n\nfunc (nm@@) Show(s string) { fmt.Println(\"exported\", s) }\n\nfunc (nm@@) show(s string) { fmt.Println(\"unexported\", s) }", "var p nm@@\np.Show(\"a\")\np.show(\"b\")")
	g.add(k("interface-methods-name-and-Name"), "interface", "plain", imp("fmt"),
		"type nmi@@ interface {\n\tName() string\n\tname() string\n}\n\ntype nm@@ struct{}\n\nfunc (nm@@) Name() string { return \"exported\" }\n\nfunc (nm@@) name() string { return \"unexported\" }", "var p nmi@@ = nm@@{}\nfmt.Println(p.Name(), p.name())")
	g.add(k("embedded-Name-outer-name"), "promoted vs own", "plain", imp("fmt"),
		"type in@@ struct{}\n\nfunc (in@@) Name() string { return \"inner.Name\" }\n\ntype out@@ struct{ in@@ }\n\nfunc (out@@) name() string { return \"outer.name\" }", "var o out@@\nfmt.Println(o.Name(), o.name())")
	g.add(k("exported-func-field-and-lower-method"), "Handler field / handler method", "plain", imp("fmt"),
		"type hs@@ struct{ Handler func(int) string }\n\nfunc (hs@@) handler(int) string { return \"method\" }", "h := hs@@{Handler: func(int) string { return \"field\" }}\nfmt.Println(h.Handler(1), h.handler(1))")
	g.add(k("local-variable-named-like-lowercased-function"), "toUpper", "plain", imp("fmt", "strings"), "",
		"toUpper := \"v\"\nitoa := 3\nfmt.Println(strings.ToUpper(toUpper), itoa)")
	g.add(k("local-variable-named-like-lowercased-method"), "name", "plain", imp("fmt"),
		"type nm@@ struct{}\n\nfunc (nm@@) Name() string { return \"method\" }", "name := \"local\"\nvar p nm@@\nfmt.Println(p.Name(), name)")
	// the qualifier is not a package but a variable of the program
	sh := "type sh@@ struct{}\n\nfunc (sh@@) ToUpper(s string) string { return \"user:\" + s }"
	g.add(k("qualifier-is-local-variable"), "strings := (define)", "plain", imp("fmt"), sh, "strings := sh@@{}\nfmt.Println(strings.ToUpper(\"x\"))")
	g.add(k("qualifier-is-local-variable"), "var strings", "plain", imp("fmt"), sh, "var strings sh@@\nfmt.Println(strings.ToUpper(\"x\"))")
	g.add(k("qualifier-is-local-variable"), "parameter strings", "plain", imp("fmt"), sh+"\n\nfunc par@@(strings sh@@) string { return strings.ToUpper(\"p\") }", "fmt.Println(par@@(sh@@{}))")
	g.add(k("qualifier-is-struct-field"), "s.strings.ToUpper", "plain", imp("fmt"), sh+"\n\ntype hold@@ struct{ strings sh@@ }", "h := hold@@{}\nfmt.Println(h.strings.ToUpper(\"f\"))")
	// user types over builtin types whose methods are named like XGo's builtin methods of the underlying type
	for _, m := range []string{"Len", "ToUpper", "ToLower", "Repeat", "Split", "Fields", "Int", "Float", "String", "Quote", "Count", "Index", "Contains", "TrimSpace", "Replace", "Capitalize", "HasPrefix", "Join"} {
		g.add(k("method-of-named-string-type-vs-builtin-string-method"), m, "plain", imp("fmt"),
			"type ms@@ string\n\nfunc (ms@@) "+m+"() string { return \"user-"+m+"\" }", "s := ms@@(\"ab cd\")\nfmt.Println(s."+m+"())")
	}
	for _, m := range []string{"Len", "Join", "Capitalize", "ToUpper", "Repeat", "TrimSpace"} {
		g.add(k("method-of-named-slice-type-vs-builtin-slice-method"), m, "plain", imp("fmt"),
			"type mss@@ []string\n\nfunc (mss@@) "+m+"() string { return \"user-"+m+"\" }", "s := mss@@{\"ab\", \"cd\"}\nfmt.Println(s."+m+"())")
	}
	// program functions named like lower-cased library functions (own file: the names are fixed)
	envs["lower-funcs"] = envT{}
	g.add(k("program-function-named-like-lowercased-function"), "toUpper/itoa/ints", "lower-funcs", imp("fmt", "strings", "strconv", "sort"),
		"func toUpper(s string) string { return \"user-toUpper\" }\n\nfunc itoa(i int) string { return \"user-itoa\" }\n\nfunc ints(x []int) { fmt.Println(\"user-ints\") }",
		"xs := []int{2, 1}\nsort.Ints(xs)\nints(xs)\nfmt.Println(strings.ToUpper(\"a\"), toUpper(\"a\"), strconv.Itoa(1), itoa(1), xs)")
}

// ---------------------------------------------------------------------------------------------
// function literals in argument position become lambdas

func (g *gen) funcLits() {
	type sig struct {
		params, args   string // parameter list of the literal, arguments the callee passes
		ptypes         string
		results, rtype string // result list, as type text
		nres           int
		single, multi  string // bodies
	}
	ps := []struct{ params, ptypes, args, e1, e2 string }{
		{"", "", "", `7`, `"k"`},
		{"a int", "int", "3", `a * 2`, `"k"`},
		{"a int, s string", "int, string", "3, \"w\"", `a + len(s)`, `s + "!"`},
	}
	var sigs []sig
	for _, p := range ps {
		sigs = append(sigs,
			sig{p.params, p.args, p.ptypes, "", "", 0, "fmt.Println(\"called\", " + p.e1 + ")", "t := " + p.e1 + "\nt++\nfmt.Println(\"called\", t, " + p.e2 + ")"},
			sig{p.params, p.args, p.ptypes, "int", "int", 1, "return " + p.e1, "t := " + p.e1 + "\nt++\nreturn t"},
			sig{p.params, p.args, p.ptypes, "(int, string)", "(int, string)", 2, "return " + p.e1 + ", " + p.e2, "t := " + p.e1 + "\nt++\nreturn t, " + p.e2},
		)
	}
	if !g.thorough { // quick: the diagonal and one mixed signature
		sigs = []sig{sigs[0], sigs[4], sigs[8], sigs[5]}
	}
	lit := func(s sig, body string, oneLine bool) string {
		r := ""
		if s.results != "" {
			r = " " + s.results
		}
		if oneLine {
			return "func(" + s.params + ")" + r + " { " + body + " }"
		}
		return "func(" + s.params + ")" + r + " {\n" + indent(body) + "\n}"
	}
	ftype := func(s sig) string {
		r := ""
		if s.rtype != "" {
			r = " " + s.rtype
		}
		return "func(" + s.ptypes + ")" + r
	}
	// how the callee uses f (named: f has a named func type; `f()` as a statement of such a value is a
	// defect of its own (class command-style/no-arguments:value-of-named-func-type), so it is deferred there)
	use := func(s sig, f string, named bool) string {
		call := f + "(" + s.args + ")"
		switch s.nres {
		case 0:
			if named && s.args == "" {
				return "defer " + call
			}
			return call
		case 1:
			return "fmt.Println(" + call + ")"
		}
		return "r1, r2 := " + call + "\nfmt.Println(r1, r2)"
	}
	for _, s := range sigs {
		for bi, body := range []string{s.single, s.single, s.multi} {
			bk := []string{"one-line-literal", "single-statement-on-own-line", "multi-statement-body"}[bi]
			nm := fmt.Sprintf("params(%s) results(%s)", s.ptypes, s.rtype)
			ft := ftype(s)
			l := lit(s, body, bi == 0)
			// destinations that are rewritten
			g.add("funclit-to-lambda/func-typed-parameter/"+bk, nm, "plain", imp("fmt"),
				"func call@@(f "+ft+") {\n"+indent(use(s, "f", false))+"\n}", "call@@("+l+")")
			g.add("funclit-to-lambda/func-typed-parameter-then-value/"+bk, nm, "plain", imp("fmt"),
				"func call@@(f "+ft+", n int) {\n"+indent(use(s, "f", false))+"\n\tfmt.Println(n)\n}", "call@@("+l+", 1)")
			g.add("funclit-to-lambda/named-func-type-parameter/"+bk, nm, "plain", imp("fmt"),
				"type ft@@ "+ft+"\n\nfunc call@@(tag string, f ft@@) {\n\tfmt.Println(tag)\n"+indent(use(s, "f", true))+"\n}", "call@@(\"t\", "+l+")")
			g.add("funclit-to-lambda/method-parameter/"+bk, nm, "plain", imp("fmt"),
				"type rc@@ struct{}\n\nfunc (rc@@) Call(n int, f "+ft+") {\n\tfmt.Println(n)\n"+indent(use(s, "f", false))+"\n}", "var r rc@@\nr.Call(1, "+l+")")
			g.add("funclit-to-lambda/func-value-callee/"+bk, nm, "plain", imp("fmt"), "",
				"call := func(f "+ft+") {\n"+indent(use(s, "f", false))+"\n}\ncall("+l+")")
			g.add("funclit-to-lambda/two-literals-in-one-call/"+bk, nm, "plain", imp("fmt"),
				"func call@@(f, h "+ft+") {\n"+indent(use(s, "f", false))+"\n\t{\n"+indent(indent(use(s, "h", false)))+"\n\t}\n}", "call@@("+l+", "+l+")")
			g.add("funclit-to-lambda/variadic-func-parameter/"+bk, nm, "plain", imp("fmt"),
				"func call@@(fs ..."+ft+") {\n\tfor _, f := range fs {\n"+indent(indent(use(s, "f", false)))+"\n\t}\n}", "call@@("+l+")")
			g.add("funclit-to-lambda/expression-position/"+bk, nm, "plain", imp("fmt"),
				"func call@@(f "+ft+") int {\n"+indent(use(s, "f", false))+"\n\treturn 1\n}", "n := call@@("+l+")\nfmt.Println(n)")
			g.add("funclit-to-lambda/interface-typed-parameter", "any: "+nm+" "+bk, "plain", imp("fmt"),
				"func show@@(v any) { fmt.Printf(\"%T\\n\", v) }", "show@@("+l+")")
			g.add("funclit-to-lambda/interface-typed-parameter", "...any: "+nm+" "+bk, "plain", imp("fmt"), "",
				"fmt.Printf(\"%T %d\\n\", "+l+", 1)")
			// destinations that are not rewritten (controls: the body is still converted)
			g.add("funclit-kept/assigned-to-variable/"+bk, nm, "plain", imp("fmt"), "", "f := "+l+"\n"+use(s, "f", false))
			g.add("funclit-kept/returned/"+bk, nm, "plain", imp("fmt"), "func mk@@() "+ft+" {\n\treturn "+strings.ReplaceAll(l, "\n", "\n\t")+"\n}", use(s, "mk@@()", false))
			g.add("funclit-kept/immediately-invoked/"+bk, nm, "plain", imp("fmt"), "", use(s, l, false))
			g.add("funclit-kept/composite-literal-element/"+bk, nm, "plain", imp("fmt"), "", "fs := []"+ft+"{"+l+"}\nm := map[string]"+ft+"{\"k\": "+l+"}\n"+use(s, "fs[0]", false)+"\nf2 := m[\"k\"]\n_ = f2")
		}
	}
	// special parameter lists and bodies, passed to a func-typed parameter
	k := func(s string) string { return "funclit-to-lambda/" + s }
	g.add(k("unnamed-parameters"), "func(int) int", "plain", imp("fmt"), "func call@@(f func(int) int) { fmt.Println(f(1)) }", "call@@(func(int) int { return 100 })")
	g.add(k("unnamed-parameters"), "func(int, string)", "plain", imp("fmt"), "func call@@(f func(int, string)) { f(1, \"s\") }", "call@@(func(int, string) { fmt.Println(\"unnamed\") })")
	g.add(k("blank-parameters"), "func(_ int, b string)", "plain", imp("fmt"), "func call@@(f func(int, string) string) { fmt.Println(f(1, \"s\")) }", "call@@(func(_ int, b string) string { return b + b })")
	g.add(k("grouped-parameters"), "func(a, b int) int", "plain", imp("fmt"), "func call@@(f func(int, int) int) { fmt.Println(f(3, 4)) }", "call@@(func(a, b int) int { return a*10 + b })")
	g.add(k("variadic-parameter-of-literal"), "func(xs ...int) int", "plain", imp("fmt"), "func call@@(f func(...int) int) { fmt.Println(f(1, 2, 3)) }", "call@@(func(xs ...int) int { return len(xs) })")
	g.add(k("named-results"), "one named result, single return", "plain", imp("fmt"), "func call@@(f func(int) int) { fmt.Println(f(1)) }", "call@@(func(a int) (r int) { return a + 1 })")
	g.add(k("named-results"), "named result assigned, bare return", "plain", imp("fmt"), "func call@@(f func(int) int) { fmt.Println(f(1)) }", "call@@(func(a int) (r int) {\n\tr = a + 5\n\treturn\n})")
	g.add(k("named-results"), "two named results", "plain", imp("fmt"), "func call@@(f func(int) (int, string)) { fmt.Println(f(1)) }", "call@@(func(a int) (n int, s string) {\n\tn, s = a, \"s\"\n\treturn\n})")
	g.add(k("named-results"), "named result and defer", "plain", imp("fmt"), "func call@@(f func() int) { fmt.Println(f()) }", "call@@(func() (r int) {\n\tdefer func() { r *= 2 }()\n\treturn 4\n})")
	g.add(k("body-is-bare-return"), "func() { return }", "plain", imp("fmt"), "func call@@(f func()) {\n\tf()\n\tfmt.Println(\"back\")\n}", "call@@(func() { return })")
	g.add(k("empty-body"), "func() {}", "plain", imp("fmt"), "func call@@(f func()) {\n\tf()\n\tfmt.Println(\"back\")\n}", "call@@(func() {})")
	g.add(k("empty-body"), "func(a int) {}", "plain", imp("fmt"), "func call@@(f func(int)) {\n\tf(1)\n\tfmt.Println(\"back\")\n}", "call@@(func(a int) {})")
	g.add(k("return-of-multi-value-call"), "return two()", "plain", imp("fmt"), "func two@@() (int, string) { return 2, \"two\" }\n\nfunc call@@(f func() (int, string)) { fmt.Println(f()) }", "call@@(func() (int, string) { return two@@() })")
	g.add(k("single-statement-is-panic"), "result but no return", "plain", imp("fmt"), "func call@@(f func() int) {\n\tdefer func() { fmt.Println(\"recovered\", recover()) }()\n\tfmt.Println(f())\n}", "call@@(func() int { panic(\"p\") })")
	g.add(k("single-return-of-func-literal"), "curried", "plain", imp("fmt"), "func call@@(f func(int) func(int) int) { fmt.Println(f(1)(2)) }", "call@@(func(a int) func(int) int { return func(b int) int { return a*10 + b } })")
	g.add(k("nested-literals"), "lambda inside lambda argument", "plain", imp("fmt"), "func call@@(f func(int) int) int { return f(2) }", "fmt.Println(call@@(func(a int) int { return call@@(func(b int) int { return a*10 + b }) }))")
	g.add(k("nested-literals"), "literal argument inside block lambda", "plain", imp("fmt"), "func call@@(f func(int)) { f(2) }", "call@@(func(a int) {\n\tcall@@(func(b int) {\n\t\tfmt.Println(a, b)\n\t})\n\tfmt.Println(\"outer\")\n})")
	g.add(k("captures-and-mutates"), "closure over local", "plain", imp("fmt"), "func times@@(n int, f func()) {\n\tfor i := 0; i < n; i++ {\n\t\tf()\n\t}\n}", "sum := 0\ntimes@@(3, func() { sum += 2 })\nfmt.Println(sum)")
	g.add(k("several-literal-arguments"), "two literals and a value between", "plain", imp("fmt"), "func call@@(f func() int, n int, h func(int) int) { fmt.Println(h(f() + n)) }", "call@@(func() int { return 1 }, 10, func(a int) int { return a * 2 })")
	g.add(k("trailing-literal-in-statement"), "onStart(func() {...})", "plain", imp("fmt"), "func onStart@@(f func()) { f() }", "onStart@@(func() {\n\tfmt.Println(\"start\")\n})")
	g.add(k("conversion-to-func-type"), "Op(func...)", "plain", imp("fmt"), "type op@@ func(int) int\n\nfunc (o op@@) Twice(a int) int { return o(o(a)) }", "o := op@@(func(a int) int { return a + 3 })\nfmt.Println(o.Twice(1))")
	g.add(k("conversion-to-func-type"), "http.HandlerFunc style", "plain", imp("fmt"), "type hf@@ func(string)\n\nfunc (h hf@@) Serve(s string) { h(s) }\n\ntype srv@@ interface{ Serve(string) }\n\nfunc run@@(s srv@@) { s.Serve(\"req\") }", "run@@(hf@@(func(s string) { fmt.Println(\"serve\", s) }))")
	g.add(k("builtin-append"), "append(fs, func...)", "plain", imp("fmt"), "", "var fs []func() int\nfs = append(fs, func() int { return 1 }, func() int { return 2 })\nfmt.Println(fs[0](), fs[1]())")
	g.add(k("library-callee"), "sort.Slice", "plain", imp("fmt", "sort"), "", "xs := []int{3, 1, 2}\nsort.Slice(xs, func(i, j int) bool { return xs[i] < xs[j] })\nfmt.Println(xs)")
	g.add(k("library-callee"), "sort.SliceStable multi-statement", "plain", imp("fmt", "sort"), "", "xs := []string{\"bb\", \"a\", \"cc\"}\nsort.SliceStable(xs, func(i, j int) bool {\n\ta, b := len(xs[i]), len(xs[j])\n\treturn a < b\n})\nfmt.Println(xs)")
	g.add(k("library-callee"), "strings.IndexFunc/TrimFunc/FieldsFunc", "plain", imp("fmt", "strings"), "", "fmt.Println(strings.IndexFunc(\"ab1\", func(r rune) bool { return r == '1' }), strings.TrimFunc(\"xxaxx\", func(r rune) bool { return r == 'x' }), strings.FieldsFunc(\"a;b\", func(r rune) bool { return r == ';' }))")
	g.add(k("library-callee"), "sync.Once.Do", "plain", imp("fmt", "sync"), "", "var once sync.Once\nfor i := 0; i < 2; i++ {\n\tonce.Do(func() { fmt.Println(\"once\", i) })\n}")
	if g.thorough {
		g.add(k("library-callee"), "regexp.ReplaceAllStringFunc", "plain", imp("fmt", "regexp", "strings"), "", "re := regexp.MustCompile(`[a-z]+`)\nfmt.Println(re.ReplaceAllStringFunc(\"ab-cd\", func(s string) string { return strings.ToUpper(s) }))")
	}
	g.add(k("library-callee"), "slices.SortFunc/IndexFunc (generic)", "plain", imp("fmt", "slices"), "", "xs := []int{3, 1, 2}\nslices.SortFunc(xs, func(a, b int) int { return b - a })\nfmt.Println(xs, slices.IndexFunc(xs, func(a int) bool { return a == 1 }))")
	g.add(k("callee-is-func-literal"), "func(f func() int){...}(func() int {...})", "plain", imp("fmt"), "", "func(f func() int) { fmt.Println(f()) }(func() int { return 8 })")
	g.add(k("deferred-call-argument"), "defer run(func() {...})", "plain", imp("fmt"), "func run@@(f func()) { f() }", "defer run@@(func() { fmt.Println(\"deferred\") })\nfmt.Println(\"body\")")
	g.add(k("interface-typed-parameter-with-method"), "func type implementing an interface cannot be inferred", "plain", imp("fmt"), "type doer@@ interface{ Do(int) }\n\ntype df@@ func(int)\n\nfunc (d df@@) Do(n int) { d(n) }\n\nfunc run@@(d doer@@) { d.Do(1) }", "run@@(df@@(func(n int) { fmt.Println(\"do\", n) }))")
	g.add("funclit-kept/defer-and-invoke", "defer func() {...}()", "plain", imp("fmt"), "", "defer func() {\n\tfmt.Println(\"deferred\", recover())\n}()\nfunc() {\n\tfmt.Println(\"invoked\")\n}()\npanic(\"boom\")")
	g.add("funclit-kept/channel-and-struct-field", "stored", "plain", imp("fmt"), "type h@@ struct{ f func(int) int }", "x := h@@{f: func(a int) int { return a + 1 }}\nch := make(chan func() string, 1)\nch <- func() string { return \"sent\" }\ng := <-ch\nfmt.Println(x.f(1), g())")
}

// ---------------------------------------------------------------------------------------------
// shadowing of the qualifier: `fmt` names a variable with methods Println ... (not the package)

// prType declares a type with the ten methods; each prints its own name, the number of
// arguments and the last argument, and returns an int (no function of package fmt does).
func prType(name string) string {
	var sb strings.Builder
	sb.WriteString("type " + name + " struct{ tag string }\n")
	for _, fn := range printFns {
		fmt.Fprintf(&sb, "\nfunc (p %s) %s(a ...any) int {\n\tf9.Println(\"PR.%s\", p.tag, len(a), a[len(a)-1])\n\treturn len(a)\n}\n", name, fn, fn)
	}
	return sb.String()
}

// shadowCall: the call through the shadowing variable; the last argument is always a string.
func shadowCall(q, fn string) string {
	switch {
	case isFp(fn) && isF(fn):
		return q + "." + fn + "(os.Stdout, \"f%d\", 1, \"last\")"
	case isFp(fn):
		return q + "." + fn + "(os.Stdout, 1, \"last\")"
	case isF(fn):
		return q + "." + fn + "(\"f%d\", 1, \"last\")"
	}
	return q + "." + fn + "(1, \"last\")"
}

// pkgStmt: the same call through the real package, as a statement.
func pkgStmt(fn string) string {
	a := "1, \"last\""
	if isF(fn) {
		a = "\"f%d\", 1, \"last\""
	}
	b, _ := useStmt("fmt", fn, a)
	return b
}

func (g *gen) shadowQualifier() {
	// units of this family import fmt as f9 too (the methods of the user type print through it),
	// so the import named fmt is used only by the markers and by the sites under test
	im := imp(`f9 "fmt"`, "fmt", "os")
	type kind struct{ name, decls, body string } // CALL = the call under test, PR = the type
	kinds := []kind{
		// handled by the converter's scope tracking (var/const declarations)
		{"local-var-declaration", "", "var fmt PR\nCALL"},
		{"local-var-declaration-with-value", "", "var fmt = PR{tag: \"v\"}\nCALL"},
		{"local-var-declaration-in-group", "", "var (\n\tk   = 1\n\tfmt PR\n)\n_ = k\nCALL"},
		{"local-var-declared-in-outer-block", "", "var fmt PR\nif true {\n\tfor i := 0; i < 1; i++ {\n\t\tCALL\n\t}\n}"},
		{"local-var-captured-by-closure", "", "var fmt PR\nf := func() {\n\tCALL\n}\nf()"},
		// not handled: every other binding form
		{"short-variable-declaration", "", "fmt := PR{}\nCALL"},
		{"short-variable-declaration-multi", "", "k, fmt := 1, PR{}\n_ = k\nCALL"},
		{"short-declaration-captured-by-closure", "", "fmt := PR{}\nf := func() {\n\tCALL\n}\nf()"},
		{"function-parameter", "func par@@(fmt PR) {\n\tCALL\n}", "par@@(PR{})"},
		{"variadic-parameter-element", "func par@@(fmts ...PR) {\n\tfor _, fmt := range fmts {\n\t\tCALL\n\t}\n}", "par@@(PR{})"},
		{"named-result", "func res@@() (fmt PR) {\n\tCALL\n\treturn\n}", "res@@()"},
		{"method-receiver", "func (fmt PR) Run() {\n\tCALL\n}", "PR{}.Run()"},
		{"func-literal-parameter", "", "f := func(fmt PR) {\n\tCALL\n}\nf(PR{})"},
		{"func-literal-parameter-of-lambda-argument", "func with@@(f func(PR)) { f(PR{}) }", "with@@(func(fmt PR) {\n\tCALL\n})"},
		{"range-value-variable", "", "for _, fmt := range []PR{{}} {\n\tCALL\n}"},
		{"range-key-variable", "", "for fmt := range map[PR]bool{{}: true} {\n\tCALL\n}"},
		{"for-init-variable", "", "for fmt, i := mkpr@@(), 0; i < 1; i++ {\n\tCALL\n}"},
		{"if-init-variable", "", "if fmt := mkpr@@(); true {\n\tCALL\n}"},
		// the init statement's scope covers the whole if-else chain
		{"if-init-variable-used-in-else", "", "if fmt := mkpr@@(); false {\n} else {\n\tCALL\n}"},
		{"if-init-variable-used-in-else-if", "", "if fmt := mkpr@@(); false {\n} else if true {\n\tCALL\n}"},
		{"if-init-variable-used-in-else-of-else-if", "", "if fmt := mkpr@@(); false {\n} else if false {\n} else {\n\tCALL\n}"},
		{"switch-init-variable-used-in-second-case", "", "switch fmt := mkpr@@(); {\ncase false:\ncase true:\n\tCALL\n}"},
		{"switch-init-variable-used-in-default", "", "switch fmt := mkpr@@(); {\ncase false:\ndefault:\n\tCALL\n}"},
		{"for-init-variable-used-in-post-and-body", "", "for fmt, i := mkpr@@(), 0; i < 1; i++ {\n\tif i == 0 {\n\t\tCALL\n\t}\n}"},
		{"switch-init-variable", "", "switch fmt := mkpr@@(); {\ncase true:\n\tCALL\n}"},
		{"type-switch-binding", "", "var v any = PR{}\nswitch fmt := v.(type) {\ncase PR:\n\tCALL\n}"},
		{"select-receive-variable", "", "ch := make(chan PR, 1)\nch <- PR{}\nselect {\ncase fmt := <-ch:\n\tCALL\n}"},
		{"local-constant", "", "const fmt = CS(\"c\")\nCALL"},
		// the qualifier is the package: the rewrite is right (controls for over-shadowing)
		{"control:variable-declared-after-the-call", "", "CALLPKG\nvar fmt PR\n_ = fmt"},
		{"control:variable-in-inner-block-before-the-call", "", "{\n\tvar fmt PR\n\t_ = fmt\n}\nCALLPKG"},
		{"control:short-declaration-in-inner-block-before-the-call", "", "if true {\n\tfmt := PR{}\n\t_ = fmt\n}\nCALLPKG"},
		{"control:label-named-fmt", "", "fmt:\n\tfor i := 0; i < 2; i++ {\n\t\tcontinue fmt\n\t}\nCALLPKG"},
		{"control:struct-field-named-fmt", "type hold@@ struct{ fmt PR }", "h := hold@@{}\nCALLFIELD\nCALLPKG"},
	}
	for _, kd := range kinds {
		for _, fn := range g.fns() {
			decls := prType("pr@@")
			if strings.Contains(kd.body, "CS(") {
				// a constant needs a basic underlying type
				decls = strings.ReplaceAll(prType("cs@@"), "struct{ tag string }", "string")
				decls = strings.ReplaceAll(decls, "p.tag", "string(p)")
			}
			// two forms of the call under test: a statement (what the maintainers probed), and with
			// the result used (the generated Go of a wrongly rewritten statement can bind to the shadowing
			// variable again, because gogen prints the package as `fmt`; a used result cannot be repaired that way)
			forms := [][2]string{{"result-used", "n := " + shadowCall("fmt", fn) + "\nf9.Println(n + 1)"}}
			if g.thorough || fn == "Println" {
				forms = append(forms, [2]string{"statement", shadowCall("fmt", fn)})
			}
			for _, fm := range forms {
				if strings.HasPrefix(kd.name, "control:") && fm[0] == "result-used" {
					continue
				}
				call := fm[1]
				d := decls
				if fm[0] == "statement" {
					// gogen prints the package as `fmt` unless some function of the file defines a variable of
					// that name with `:=`; then it is `fmt1` everywhere. Without this function a wrongly rewritten
					// statement inside a function whose PARAMETER is named fmt binds to the parameter again in the
					// generated Go and the difference disappears by accident (and reappears when the file gets such
					// a function, e.g. inside a packed file).
					d += "\nfunc other@@() {\n\tfmt := 0\n\t_ = fmt\n}\n"
				}
				if strings.Contains(kd.body, "mkpr@@") {
					d += "\nfunc mkpr@@() pr@@ { return pr@@{} }\n"
				}
				if kd.decls != "" {
					d += "\n" + strings.NewReplacer("CALL", strings.ReplaceAll(call, "\n", "\n\t"), "PR", "pr@@").Replace(kd.decls)
				}
				body := kd.body
				// keep the indentation of the place holder for multi-line calls
				for _, ind := range []string{"\t\t\t", "\t\t", "\t"} {
					body = strings.ReplaceAll(body, ind+"CALL\n", ind+strings.ReplaceAll(call, "\n", "\n"+ind)+"\n")
					if strings.HasSuffix(body, ind+"CALL") {
						body = strings.TrimSuffix(body, "CALL") + strings.ReplaceAll(call, "\n", "\n"+ind)
					}
				}
				r := strings.NewReplacer("CALLPKG", pkgStmt(fn), "CALLFIELD", shadowCall("h.fmt", fn), "CALL", call, "PR", "pr@@", "CS(", "cs@@(")
				g.add("fmt-to-builtin/qualifier-shadowed-by:"+kd.name, fn+" "+fm[0], "plain", im, d, r.Replace(body))
			}
		}
	}
	// the other direction: a call through an alias of fmt inside the scope of a variable named fmt becomes
	// `echo`, which the generated Go spells fmt.Println again
	ka := "fmt-to-builtin/alias-call-in-scope-of-variable-named-fmt"
	g.add(ka, "var declaration", "plain", im, prType("pr@@"), "var fmt pr@@\nfmt.Println(1, \"last\")\nf9.Println(\"plain\", 2)\nf9.Printf(\"%d\\n\", 3)")
	g.add(ka, "parameter", "plain", im, prType("pr@@")+"\nfunc par@@(fmt pr@@) {\n\tfmt.Println(1, \"last\")\n\tf9.Println(\"plain\", 2)\n\tf9.Printf(\"%d\\n\", 3)\n}", "par@@(pr@@{})")
	g.add(ka, "short declaration", "plain", im, prType("pr@@"), "fmt := pr@@{}\nf9.Println(\"plain\", 2)\n_ = fmt")
	// scope leaks of the converter: a declaration in one case clause must not hide the package in the next
	// (own files: whether the import survives depends on the rest of the file)
	leakFns := g.fns()
	if !g.thorough {
		leakFns = leakFns[:2]
	}
	for _, fn := range leakFns {
		r := strings.NewReplacer("CALLPKG", indent(indent(pkgStmt(fn))), "CALL", shadowCall("fmt", fn), "PR", "pr@@")
		g.add("fmt-to-builtin/qualifier-declared-in-previous-case-clause", fn, "solo:"+fn+"-switch", im, prType("pr@@"),
			r.Replace("for i := 0; i < 2; i++ {\n\tswitch i {\n\tcase 0:\n\t\tvar fmt PR\n\t\tCALL\n\tcase 1:\nCALLPKG\n\t}\n}"))
		g.add("fmt-to-builtin/qualifier-declared-in-previous-comm-clause", fn, "solo:"+fn+"-select", im, prType("pr@@"),
			r.Replace("ch := make(chan int, 2)\nch <- 1\nch <- 2\nfor i := 0; i < 3; i++ {\n\tselect {\n\tcase v := <-ch:\n\t\tif v == 1 {\n\t\t\tcontinue\n\t\t}\n\t\tvar fmt PR\n\t\tCALL\n\tdefault:\nCALLPKG\n\t}\n}"))
	}
	// file-level kinds: a package-level variable / constant named fmt (the file cannot import "fmt" under that name)
	envs["pkgvar-fmt"] = envT{osMarker: true, imports: imp(`f9 "fmt"`), prelude: prType("prT") + "\nvar fmt = prT{tag: \"pkg\"}"}
	envs["pkgvar-fmt-after"] = envT{osMarker: true, imports: imp(`f9 "fmt"`), prelude: prType("prT")}
	for _, fn := range g.fns() {
		g.add("fmt-to-builtin/qualifier-shadowed-by:package-level-variable", fn, "pkgvar-fmt", imp("os"), "", shadowCall("fmt", fn))
	}
	g.add("fmt-to-builtin/qualifier-shadowed-by:package-level-variable-declared-after-use", "all", "pkgvar-fmt-after", imp("os"), "var fmt = prT{tag: \"late\"}", shadowCall("fmt", "Println")+"\n"+shadowCall("fmt", "Sprintf")+"\n"+shadowCall("fmt", "Fprint"))
	// import aliases
	envs["alias-log"] = envT{osMarker: true, imports: imp(`fmt "log"`), prelude: "func init() {\n\tfmt.SetFlags(0)\n\tfmt.SetOutput(os.Stdout)\n}"}
	g.add("fmt-to-builtin/qualifier-is-alias-of-another-package", "import fmt \"log\"", "alias-log", imp("os"), "", "fmt.Println(\"via log\", 1)\nfmt.Printf(\"%d via log\\n\", 2)\nfmt.Print(\"p via log\\n\")")
	aliases := []string{"f", "strings", "echo", "println", "os2", "fmt2"}
	if !g.thorough {
		aliases = aliases[:3]
	}
	for _, al := range aliases {
		envs["alias-"+al] = envT{osMarker: true, imports: imp(al + ` "fmt"`)}
		body := ""
		for _, fn := range printFns {
			b, _ := useStmt(al, fn, map[bool]string{true: `"a%d", 1`, false: `"a", 1`}[isF(fn)])
			body += strings.ReplaceAll(b, "fmt.Println(", al+".Println(") + "\n"
		}
		g.add("fmt-to-builtin/import-alias-of-fmt", "import "+al+" \"fmt\"", "alias-"+al, imp("os"), "", body)
	}
	envs["alias-two"] = envT{osMarker: true, imports: imp(`fa "fmt"`, `fb "fmt"`)}
	g.add("fmt-to-builtin/import-alias-of-fmt", "two aliases, one only as type", "alias-two", imp("os"), "type sg@@ struct{}\n\nfunc (sg@@) String() string { return \"sg\" }", "var s fb.Stringer = sg@@{}\nfa.Println(s, 1)\nfa.Print(fa.Sprint(s), \"\\n\")")
	envs["dot-import"] = envT{osMarker: true, imports: imp(`. "fmt"`)}
	g.add("fmt-to-builtin/dot-import-of-fmt", "import . \"fmt\"", "dot-import", imp("os"), "", "Println(\"dot\", 1)\nPrintf(\"%d\\n\", 2)\ns := Sprint(\"x\", 3)\nPrintln(s)")
}

// ---------------------------------------------------------------------------------------------
// the names the rewrite introduces (echo, print, printf ...) are declared by the program

func (g *gen) shadowTargets() {
	// the call under test and a way to show its effect that uses nothing but os.Stdout
	type use struct{ body, want string }
	call := func(fn string) string {
		a := `"t", 1`
		if isF(fn) {
			a = `"t%d", 1`
		}
		switch {
		case fn == "Println":
			return "fmt.Println(" + a + ")"
		case fn == "Print" || fn == "Printf":
			return "fmt." + fn + "(" + a + ")\nos.Stdout.WriteString(\"\\n\")"
		case isSp(fn):
			return "os.Stdout.WriteString(fmt." + fn + "(" + a + ") + \"|\\n\")"
		case fn == "Errorf":
			return "os.Stdout.WriteString(fmt.Errorf(" + a + ").Error() + \"|\\n\")"
		}
		return "fmt." + fn + "(os.Stdout, " + a + ")\nos.Stdout.WriteString(\"\\n\")"
	}
	// user declarations of the target name with a visible behaviour
	userFunc := func(fn, name string) string {
		switch {
		case isSp(fn):
			return "func " + name + "(a ...any) string { return \"USER-" + name + "\" }"
		case fn == "Errorf":
			return "func " + name + "(a ...any) error { return errors.New(\"USER-" + name + "\") }"
		}
		return "func " + name + "(a ...any) { os.Stdout.WriteString(\"USER-" + name + "\\n\") }"
	}
	userLit := func(fn, name string) string {
		return strings.Replace(userFunc(fn, name), "func "+name+"(", "func(", 1)
	}
	im := imp("fmt", "os", "errors")
	k := func(s string) string { return "fmt-to-builtin/target-name-declared-as:" + s }
	pkgKinds := []struct{ name, env string }{
		{"package-level-function", "tgt-func"}, {"package-level-func-variable", "tgt-funcvar"}, {"package-level-int-variable", "tgt-intvar"},
		{"package-level-constant", "tgt-const"}, {"package-level-type", "tgt-type"}, {"package-level-function-with-capital", "tgt-capital"},
	}
	for _, pk := range pkgKinds {
		envs[pk.env] = envT{osMarker: true}
	}
	for _, fn := range g.fns() {
		t := target(fn)
		c := call(fn)
		g.add(k("package-level-function"), fn, "tgt-func", im, userFunc(fn, t), c)
		g.add(k("package-level-func-variable"), fn, "tgt-funcvar", im, "var "+t+" = "+userLit(fn, t), c)
		g.add(k("package-level-int-variable"), fn, "tgt-intvar", im, "var "+t+" = 5", c)
		g.add(k("package-level-constant"), fn, "tgt-const", im, "const "+t+" = \"const\"", c)
		g.add(k("package-level-type"), fn, "tgt-type", im, "type "+t+" struct{ A int }", c)
		g.add(k("package-level-function-with-capital"), fn, "tgt-capital", im, userFunc(fn, title(t)), c)
		// local kinds (plain file; the unit prints only through the call under test and os.Stdout)
		g.add(k("local-func-variable"), fn, "plain", im, "", t+" := "+userLit(fn, t)+"\n_ = "+t+"\n"+c)
		g.add(k("local-int-variable"), fn, "plain", im, "", t+" := 5\n_ = "+t+"\n"+c)
		g.add(k("local-var-declaration"), fn, "plain", im, "", "var "+t+" string\n_ = "+t+"\n"+c)
		g.add(k("local-constant"), fn, "plain", im, "", "const "+t+" = 1\n"+c)
		g.add(k("local-type"), fn, "plain", im, "", "type "+t+" int\n"+c)
		g.add(k("function-parameter"), fn, "plain", im, "func par@@("+t+" int) {\n"+indent(c)+"\n}", "par@@(1)")
		g.add(k("named-result"), fn, "plain", im, "func res@@() ("+t+" int) {\n"+indent(c)+"\n\treturn\n}", "res@@()")
		g.add(k("func-literal-parameter-of-lambda-argument"), fn, "plain", im, "func with@@(f func(int)) { f(1) }", "with@@(func("+t+" int) {\n"+indent(c)+"\n})")
		g.add(k("range-variable"), fn, "plain", im, "", "for _, "+t+" := range []int{1} {\n\t_ = "+t+"\n"+indent(c)+"\n}")
		g.add(k("variable-of-enclosing-function-in-closure"), fn, "plain", im, "", t+" := 5\nf := func() {\n"+indent(c)+"\n}\nf()\n_ = "+t)
		// controls: the name lives in another namespace
		g.add(k("control:method"), fn, "plain", im, "type tm@@ struct{}\n\nfunc (tm@@) "+t+"(n int) { os.Stdout.WriteString(\"method\\n\") }", "v := tm@@{}\nv."+t+"(1)\n"+c)
		g.add(k("control:struct-field"), fn, "plain", im, "type tf@@ struct{ "+t+" int }", "v := tf@@{"+t+": 1}\n_ = v."+t+"\n"+c)
		g.add(k("control:label"), fn, "plain", im, "", t+":\n\tfor i := 0; i < 2; i++ {\n\t\tcontinue "+t+"\n\t}\n"+c)
	}
	// Go programs may declare println/print themselves: fmt.Println becomes echo, not println
	envs["tgt-println"] = envT{osMarker: true}
	g.add(k("package-level-function"), "user println + fmt.Println", "tgt-println", im, "func println(a ...any) { os.Stdout.WriteString(\"USER-println\\n\") }", "fmt.Println(\"t\", 1)\nprintln(\"u\")")
}

// ---------------------------------------------------------------------------------------------
// import declaration forms and the position of main

func (g *gen) importForms() {
	body := "fmt.Println(strings.ToUpper(\"imp\"), 1)\nfmt.Printf(\"%s\\n\", strings.Repeat(\"ab\", 2))"
	envs["separate-imports"] = envT{separate: true}
	envs["main-first"] = envT{mainFirst: true}
	envs["separate-main-first"] = envT{separate: true, mainFirst: true}
	for _, e := range []string{"separate-imports", "main-first", "separate-main-first"} {
		g.add("file-layout/"+e, "fmt only rewritten", e, imp("fmt", "strings"), "", body)
		g.add("file-layout/"+e, "closure and defer", e, imp("fmt", "strings"), "func hl@@(f func(string) string) string { return f(\"h\") }", "defer fmt.Println(\"end\")\nfmt.Println(hl@@(func(s string) string { return strings.ToUpper(s) }))")
	}
	// fmt is used only in places that are not rewritten calls: the import must survive (own files)
	im := imp("fmt")
	st := "type sg@@ struct{}\n\nfunc (sg@@) String() string { return \"sg\" }"
	for i, c := range []struct{ name, decls, body string }{
		{"only-rewritten-calls", "", "fmt.Println(\"only\")"},
		{"variable-of-type-fmt.Stringer", st, "var s fmt.Stringer = sg@@{}\nfmt.Println(s)"},
		{"struct-field-of-type-fmt.Stringer", st + "\n\ntype hd@@ struct{ s fmt.Stringer }", "fmt.Println(hd@@{sg@@{}}.s)"},
		{"parameter-of-type-fmt.Stringer", st + "\n\nfunc pf@@(s fmt.Stringer) string { return s.String() }", "fmt.Println(pf@@(sg@@{}))"},
		{"result-of-type-fmt.Stringer", st + "\n\nfunc pf@@() fmt.Stringer { return sg@@{} }", "fmt.Println(pf@@())"},
		{"embedded-in-interface", st + "\n\ntype si@@ interface{ fmt.Stringer }", "var s si@@ = sg@@{}\nfmt.Println(s)"},
		{"type-assertion", st, "var v any = sg@@{}\nfmt.Println(v.(fmt.Stringer).String())"},
		{"type-switch-case", st, "var v any = sg@@{}\nswitch v.(type) {\ncase fmt.Stringer:\n\tfmt.Println(\"stringer\")\n}"},
		{"composite-literal-element-type", st, "fmt.Println([]fmt.Stringer{sg@@{}}, map[string]fmt.Stringer{\"k\": sg@@{}})"},
		{"package-level-var-type", st + "\n\nvar gv@@ fmt.Stringer = sg@@{}", "fmt.Println(gv@@)"},
		{"type-declaration", st + "\n\ntype al@@ = fmt.Stringer", "var s al@@ = sg@@{}\nfmt.Println(s)"},
		{"channel-and-func-types", st, "ch := make(chan fmt.Stringer, 1)\nch <- sg@@{}\nf := func(s fmt.Stringer) fmt.Stringer { return s }\nfmt.Println(f(<-ch))"},
		{"not-rewritten-function", "", "var a int\nfmt.Sscan(\"4\", &a)\nfmt.Println(a)"},
	} {
		if !g.thorough && i%2 == 1 && c.name != "not-rewritten-function" {
			continue
		}
		g.add("import-of-fmt/other-use:"+c.name, "own file", fmt.Sprintf("solo:fmtuse%d", i), im, c.decls, c.body)
	}
}

// ---------------------------------------------------------------------------------------------
// Go string literals that contain `$`: in XGo source `${...}` is interpolation

func (g *gen) unchangedGo() {
	// no rewrite site of the converter is involved: the Go text is kept and must still mean the same in XGo
	k := "unchanged-go-code/parenthesised-composite-literal-in-statement-header"
	d := "type cl@@ struct{ A int }"
	g.add(k, "if", "plain", imp("fmt"), d, "if v := (cl@@{1}); v.A == 1 {\n\tfmt.Println(v)\n}")
	g.add(k, "for", "plain", imp("fmt"), d, "for v, i := (cl@@{2}), 0; i < 1; i++ {\n\tfmt.Println(v)\n}")
	g.add(k, "switch", "plain", imp("fmt"), d, "switch v := (cl@@{3}); {\ncase true:\n\tfmt.Println(v)\n}")
	g.add(k, "if-condition", "plain", imp("fmt"), d, "v := cl@@{4}\nif v == (cl@@{4}) {\n\tfmt.Println(v)\n}")
}

// fieldVsMethod: XGo looks a lower-case selector up with a capital letter too; a Go type may have both.
func (g *gen) fieldVsMethod() {
	k := "unchanged-go-code/field-access-with-method-of-capitalised-name"
	g.add(k, "field name read, method Name() exists", "plain", imp("fmt"), "type fm@@ struct{ name string }\n\nfunc (p fm@@) Name() string { return \"method\" }", "p := fm@@{name: \"field\"}\nfmt.Println(p.name)")
	g.add(k, "field name written, method Name() exists", "plain", imp("fmt"), "type fm@@ struct{ name string }\n\nfunc (p *fm@@) Name() string { return \"method\" }", "p := &fm@@{}\np.name = \"set\"\nq := *p\nfmt.Println(q)")
	g.add(k, "int field count, method Count() exists", "plain", imp("fmt"), "type fm@@ struct{ count int }\n\nfunc (p fm@@) Count() int { return -1 }", "p := fm@@{count: 3}\nfmt.Println(p.count+1)")
	// the usual getter: the method reads the field (own file: the converted program does not terminate normally)
	g.add(k, "getter: func (p T) Name() string { return p.name }", "solo:getter", imp("fmt", "runtime/debug"), "type fm@@ struct{ name string }\n\nfunc (p fm@@) Name() string { return p.name }", "debug.SetMaxStack(1 << 20) // a runaway recursion ends quickly\np := fm@@{name: \"field\"}\nfmt.Println(p.Name())")
}

func (g *gen) dollarStrings() {
	for _, c := range [][2]string{
		{"dollar-brace-identifier", `"${x}"`}, {"dollar-brace-text", `"cost ${not an expression}"`}, {"dollar-alone", `"$"`}, {"double-dollar", `"a$$b"`},
		{"dollar-name", `"$HOME"`}, {"dollar-brace-open", `"${"`}, {"raw-string-dollar-brace", "`${x}`"}, {"dollar-digit", `"$1 $2"`},
	} {
		g.add("string-literal/"+map[bool]string{true: "dollar-brace", false: "dollar"}[strings.Contains(c[1], "${")], c[0], "plain", imp("fmt"), "", "x := 1\n_ = x\nfmt.Println("+c[1]+")\ns := "+c[1]+"\nfmt.Println(len(s), s)")
	}
}

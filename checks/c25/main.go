// C25: Go -> XGo style conversion (xgo fmt --smart, x/format.GopstyleSource) preserves behaviour.
//
// Every generated Go main program is run as it is (reference, plain Go toolchain) and, on the
// subject side, converted with x/format.GopstyleSource (what `xgo fmt --smart --mvgo` calls),
// compiled as main.xgo by the XGo compiler (parser + cl + gogen, in-process), built and run.
// The converted source must compile and both programs must print the same.
//
// The conversion works on a whole file, so many unit functions u<N> are packed into one Go file
// (`fmt.Println("U", N)` markers in main, as progs.Source does); the whole file is converted.
// Units whose conversion does not compile are identified by converting them alone; units whose
// output differs inside a packed file are run again as single-unit files before being reported.
// File-level shadowing items (imports, package-level declarations) live in their own files (envs).
package main

import (
	"encoding/json"
	"fmt"
	"os"
	"regexp"
	"sort"
	"strconv"
	"strings"
	"time"

	xformat "github.com/goplus/xgo/x/format"

	"verif/engine"
	"verif/progs"
)

// Unit is one generated fragment: top-level declarations private to the unit and the body of func u<N>.
type Unit struct {
	Key     string   // defect class: rewrite rule + shadowing kind / shape (violation key suffix)
	Name    string   // what is varied inside the class (print function, argument shape ...)
	Env     string   // units of one env share files; file-level shadowing items get their own env
	Imports []string // import specs the unit needs (`"fmt"`, `f "fmt"`)
	Decls   string
	Body    string
}

// env properties, keyed by Unit.Env (default: fmt marker, main last).
type envT struct {
	osMarker  bool     // markers are written with os.Stdout.WriteString (fmt is shadowed or its targets are)
	mainFirst bool     // func main is the first declaration (then it is not unwrapped)
	separate  bool     // every import is a declaration of its own (import "fmt" on one line)
	imports   []string // file-level imports of the env (aliases)
	prelude   string   // file-level declarations of the env
}

var envs = map[string]envT{}

func envOf(name string) envT {
	if e, ok := envs[name]; ok {
		return e
	}
	if i := strings.Index(name, ":"); i > 0 { // "<env>:<anything>" = a file of its own with the properties of <env>
		return envs[name[:i]]
	}
	return envT{}
}

// Case is what a replay file carries: the complete single-unit Go file.
type Case struct {
	Key  string `json:"key"`
	Name string `json:"name"`
	Env  string `json:"env"`
	Src  string `json:"go_source"`
}

// render renders the Go file holding the units idx (global numbers are used for the markers).
func render(units []Unit, idx []int) string {
	e := envOf(units[idx[0]].Env)
	imps := map[string]bool{}
	if e.osMarker {
		imps[`"os"`] = true
	} else {
		imps[`"fmt"`] = true
	}
	addImp := func(im string) {
		if !strings.Contains(im, `"`) {
			im = strconv.Quote(im)
		}
		imps[im] = true
	}
	for _, im := range e.imports {
		addImp(im)
	}
	for _, i := range idx {
		for _, im := range units[i].Imports {
			addImp(im)
		}
	}
	var il []string
	for im := range imps {
		il = append(il, im)
	}
	sort.Slice(il, func(a, b int) bool { // by path, then by alias
		pa, pb := il[a][strings.Index(il[a], `"`):], il[b][strings.Index(il[b], `"`):]
		if pa != pb {
			return pa < pb
		}
		return il[a] < il[b]
	})
	var sb strings.Builder
	sb.WriteString("package main\n\n")
	if e.separate {
		for _, im := range il {
			sb.WriteString("import " + im + "\n")
		}
		sb.WriteString("\n")
	} else {
		sb.WriteString("import (\n")
		for _, im := range il {
			sb.WriteString("\t" + im + "\n")
		}
		sb.WriteString(")\n\n")
	}
	if e.prelude != "" {
		sb.WriteString(strings.TrimRight(e.prelude, "\n") + "\n\n")
	}
	var mainFn strings.Builder
	mainFn.WriteString("func main() {\n")
	for _, i := range idx {
		if e.osMarker {
			fmt.Fprintf(&mainFn, "\tos.Stdout.WriteString(\"U %d\\n\")\n\tu%d()\n", i, i)
		} else {
			fmt.Fprintf(&mainFn, "\tfmt.Println(\"U\", %d)\n\tu%d()\n", i, i)
		}
	}
	mainFn.WriteString("}\n")
	if e.mainFirst {
		sb.WriteString(mainFn.String() + "\n")
	}
	for _, i := range idx {
		u := units[i]
		n := strconv.Itoa(i) // "@@" makes the names of unit-private declarations unique
		if u.Decls != "" {
			sb.WriteString(strings.ReplaceAll(strings.TrimRight(u.Decls, "\n"), "@@", n) + "\n\n")
		}
		fmt.Fprintf(&sb, "func u%d() {\n%s\n}\n\n", i, strings.ReplaceAll(indent(u.Body), "@@", n))
	}
	if !e.mainFirst {
		sb.WriteString(mainFn.String())
	}
	return sb.String()
}

func indent(s string) string {
	lines := strings.Split(strings.TrimRight(s, "\n"), "\n")
	for i := range lines {
		if lines[i] != "" {
			lines[i] = "\t" + lines[i]
		}
	}
	return strings.Join(lines, "\n")
}

// convert runs the smart formatter; a panic is a failure of its own.
func convert(goSrc string) (out string, fail string) {
	f := engine.Guard(func() {
		b, err := xformat.GopstyleSource([]byte(goSrc), "main.go")
		if err != nil {
			fail = "error: " + err.Error()
			return
		}
		out = string(b)
	})
	if f != nil {
		fail = "panic: " + f.Key + " " + f.What
	}
	return
}

// translate = convert + compile with the XGo compiler; stage is "" on success.
func translate(goSrc string) (xgo string, gen []byte, stage, msg string) {
	xgo, fail := convert(goSrc)
	if fail != "" {
		return "", nil, "conversion-fails", fail
	}
	gen, err := progs.CompileXGo("main.xgo", xgo, nil)
	if err != nil {
		return xgo, nil, "converted-source-does-not-compile", firstLines(err.Error(), 4)
	}
	return xgo, gen, "", ""
}

// firstSegment keeps the panic/fatal line of a crash header (the rest carries addresses).
func firstSegment(h string) string {
	if i := strings.Index(h, " | "); i >= 0 {
		return h[:i]
	}
	return h
}

func firstLines(s string, n int) string {
	l := strings.Split(strings.TrimSpace(s), "\n")
	if len(l) > n {
		l = l[:n]
	}
	return strings.Join(l, " | ")
}

type result struct {
	done   bool
	stage  string // "" = equal output; otherwise the failing stage
	msg    string
	xgo    string // converted source (single-unit file when available)
	out    string
	packed string // when the difference exists only inside the packed file: its Go source
}

type job struct {
	idx      []int
	prog     *progs.Prog
	xgo      string
	fromPack string // single job created because of a difference seen in this packed Go source
}

var reLine = regexp.MustCompile(`main\.xgo:(\d+)`)
var reUnitFn = regexp.MustCompile(`^func u(\d+)\b`)

// unitAtLine maps a line of the converted source to the unit whose declarations/function contain it.
func unitAtLine(xgo string, idx []int) func(line int) int {
	lines := strings.Split(xgo, "\n")
	owner := make([]int, len(lines)+2)
	for i := range owner {
		owner[i] = -1
	}
	// a unit's region = after the end of the previous unit function up to the end of its own function
	start := 0
	for ln := 0; ln < len(lines); ln++ {
		if m := reUnitFn.FindStringSubmatch(lines[ln]); m != nil {
			n, _ := strconv.Atoi(m[1])
			end := ln
			if !strings.HasSuffix(strings.TrimSpace(lines[ln]), "}") || strings.HasSuffix(strings.TrimSpace(lines[ln]), "{") {
				for end = ln + 1; end < len(lines) && lines[end] != "}"; end++ {
				}
			}
			for k := start; k <= end && k < len(lines); k++ {
				owner[k+1] = n
			}
			start = end + 1
			ln = end
		}
	}
	return func(line int) int {
		if line < 0 || line >= len(owner) {
			return -1
		}
		return owner[line]
	}
}

// runner evaluates units through the whole pipeline.
type runner struct {
	c       *engine.Check
	units   []Unit
	res     []result
	refOut  map[int]string
	s       *progs.Scratch
	nprog   int
	perProg int
	t0      time.Time
}

func (r *runner) lap(what string) {
	if os.Getenv("C25_TIMING") != "" {
		fmt.Fprintf(os.Stderr, "[%6.1fs] %s\n", time.Since(r.t0).Seconds(), what)
	}
}

func (r *runner) fatal(format string, a ...any) {
	if r.s != nil {
		r.s.Remove()
	}
	r.c.Fatal(format, a...)
}

// prepare converts and compiles the units idx as one file; units that fail are decided here
// (single-unit conversion), the others come back as jobs with a program to build.
func (r *runner) prepare(idx []int, fromPack string) []*job {
	if len(idx) == 0 {
		return nil
	}
	src := render(r.units, idx)
	xgo, gen, stage, msg := translate(src)
	if stage == "" {
		// the generated Go is type-checked in-process first (go/types reports every error; `go build`
		// stops after ten): units whose code does not type-check are decided as single-unit files
		if errs, inconclusive := goErrors(gen); len(errs) > 0 && !inconclusive {
			if len(idx) == 1 {
				r.res[idx[0]] = result{done: true, stage: "generated-go-does-not-build", msg: firstLines(strings.Join(errs, "\n"), 4), xgo: xgo}
				return nil
			}
			at := unitAtLine(xgo, idx)
			sus := map[int]bool{}
			for _, e := range errs {
				m := reLine.FindStringSubmatch(e)
				u := -1
				if m != nil {
					n, _ := strconv.Atoi(m[1])
					u = at(n)
				}
				if u < 0 { // not attributable: every unit is looked at alone
					return r.singles(idx, "")
				}
				sus[u] = true
			}
			var rest, bad []int
			for _, i := range idx {
				if sus[i] {
					bad = append(bad, i)
				} else {
					rest = append(rest, i)
				}
			}
			return append(r.singles(bad, ""), r.prepare(rest, "")...)
		}
	}
	if stage == "" {
		r.nprog++
		return []*job{{idx: idx, xgo: xgo, fromPack: fromPack, prog: &progs.Prog{Name: fmt.Sprintf("s%d", r.nprog), GoSrc: gen}}}
	}
	if len(idx) == 1 {
		r.res[idx[0]] = result{done: true, stage: stage, msg: msg, xgo: xgo}
		return nil
	}
	var ok []int
	for _, i := range idx {
		x, _, st, m := translate(render(r.units, []int{i}))
		if st != "" {
			r.res[i] = result{done: true, stage: st, msg: m, xgo: x}
			continue
		}
		ok = append(ok, i)
	}
	if len(ok) == len(idx) || len(ok) == 0 {
		// every unit translates alone but the file does not: single-unit files decide
		var js []*job
		for _, i := range ok {
			js = append(js, r.prepare([]int{i}, "")...)
		}
		if len(ok) == len(idx) {
			r.c.Hist("packed_file_does_not_translate_but_every_unit_does", 1)
		}
		return js
	}
	return r.prepare(ok, "")
}

func (r *runner) singles(idx []int, fromPack string) []*job {
	var js []*job
	for _, i := range idx {
		js = append(js, r.prepare([]int{i}, fromPack)...)
	}
	return js
}

func (r *runner) run(groups [][]int) {
	var err error
	r.s, err = progs.NewScratch()
	if err != nil {
		r.c.Fatal("%v", err)
	}
	defer r.s.Remove()
	// reference programs: the generated Go files themselves
	var refs []*progs.Prog
	for g, idx := range groups {
		refs = append(refs, &progs.Prog{Name: fmt.Sprintf("ref%d", g), GoSrc: []byte(render(r.units, idx))})
	}
	if err := r.s.BuildAll(refs); err != nil {
		r.fatal("%v", err)
	}
	r.s.RunAll(refs)
	for g, p := range refs {
		if !p.BuildOK {
			r.fatal("generator bug: the ORIGINAL Go file of group %d (env %s) does not build:\n%s", g, r.units[groups[g][0]].Env, p.BuildErr)
		}
		if p.Exit != 0 || p.TimedOut {
			r.fatal("generator bug: the ORIGINAL Go program of group %d (env %s) ends abnormally: exit=%d timeout=%v %s", g, r.units[groups[g][0]].Env, p.Exit, p.TimedOut, progs.PanicHeader(p.Stderr))
		}
		so := progs.SplitUnits(p.Stdout)
		for _, i := range groups[g] {
			o, ok := so[i]
			if !ok {
				r.fatal("generator bug: marker of unit %d missing in the reference output", i)
			}
			r.refOut[i] = o
		}
	}
	r.lap("references built and run")
	var queue []*job
	for _, idx := range groups {
		queue = append(queue, r.prepare(idx, "")...)
	}
	r.lap("converted and compiled")
	for round := 0; len(queue) > 0; round++ {
		if round > 8 {
			r.fatal("job queue does not drain")
		}
		var ps []*progs.Prog
		for _, j := range queue {
			ps = append(ps, j.prog)
		}
		if err := r.s.BuildAll(ps); err != nil {
			r.fatal("%v", err)
		}
		r.s.RunAll(ps)
		r.lap(fmt.Sprintf("round %d: %d programs built and run", round, len(ps)))
		var next []*job
		for _, j := range queue {
			next = append(next, r.settle(j)...)
		}
		queue = next
	}
}

// settle judges a built and run job; returns follow-up jobs.
func (r *runner) settle(j *job) []*job {
	p := j.prog
	single := len(j.idx) == 1
	if !p.BuildOK {
		if single {
			r.res[j.idx[0]] = result{done: true, stage: "generated-go-does-not-build", msg: firstLines(p.BuildErr, 4), xgo: j.xgo}
			return nil
		}
		at := unitAtLine(j.xgo, j.idx)
		sus := map[int]bool{}
		unknown := false
		for _, m := range reLine.FindAllStringSubmatch(p.BuildErr, -1) {
			n, _ := strconv.Atoi(m[1])
			if u := at(n); u >= 0 {
				sus[u] = true
			} else {
				unknown = true
			}
		}
		if len(sus) == 0 || unknown || strings.Contains(p.BuildErr, "too many errors") {
			return r.singles(j.idx, "")
		}
		var rest, bad []int
		for _, i := range j.idx {
			if sus[i] {
				bad = append(bad, i)
			} else {
				rest = append(rest, i)
			}
		}
		return append(r.singles(bad, ""), r.prepare(rest, "")...)
	}
	so := progs.SplitUnits(p.Stdout)
	abnormal := p.Exit != 0 || p.TimedOut
	tail := ""
	if p.TimedOut {
		tail = "\n<TIMEOUT>"
	} else if p.Exit != 0 {
		tail = fmt.Sprintf("\n<EXIT %d %s>", p.Exit, firstSegment(progs.PanicHeader(p.Stderr)))
	}
	if single {
		i := j.idx[0]
		want := r.marker(i) + r.refOut[i]
		got := p.Stdout + tail
		switch {
		case got != want && abnormal:
			r.res[i] = result{done: true, stage: "converted-program-ends-abnormally", msg: tail, xgo: j.xgo, out: got}
		case got != want:
			r.res[i] = result{done: true, stage: "output-differs", xgo: j.xgo, out: got}
		case j.fromPack != "":
			r.res[i] = result{done: true, stage: "output-differs-only-inside-the-packed-file", xgo: j.xgo, out: got, packed: j.fromPack}
		default:
			r.res[i] = result{done: true, xgo: j.xgo, out: got}
		}
		return nil
	}
	src := render(r.units, j.idx)
	if abnormal {
		// the last unit whose marker was printed is the culprit; the units behind it did not run
		cul := -1
		for k, i := range j.idx {
			if _, ok := so[i]; ok {
				cul = k
			}
		}
		var follow []*job
		if cul < 0 {
			return r.singles(j.idx, "")
		}
		for _, i := range j.idx[:cul] {
			if so[i] == r.refOut[i] {
				r.res[i] = result{done: true, xgo: j.xgo, out: so[i]}
			} else {
				follow = append(follow, r.singles([]int{i}, src)...)
			}
		}
		follow = append(follow, r.singles([]int{j.idx[cul]}, "")...)
		follow = append(follow, r.prepare(append([]int(nil), j.idx[cul+1:]...), "")...)
		return follow
	}
	var follow []*job
	for _, i := range j.idx {
		if o, ok := so[i]; ok && o == r.refOut[i] {
			r.res[i] = result{done: true, xgo: j.xgo, out: o}
		} else {
			follow = append(follow, r.singles([]int{i}, src)...)
		}
	}
	return follow
}

func (r *runner) marker(i int) string { return fmt.Sprintf("U %d\n", i) }

func failureOf(u Unit, src string, rs result, want string) *engine.Failure {
	if rs.stage == "" {
		return nil
	}
	what := map[string]string{
		"conversion-fails":                           "the smart formatter fails on a valid Go program",
		"converted-source-does-not-compile":          "the converted XGo source is rejected by the XGo compiler",
		"generated-go-does-not-build":                "the converted XGo source compiles to Go code that does not build",
		"converted-program-ends-abnormally":          "the converted program ends abnormally while the original Go program does not",
		"output-differs":                             "the converted program prints something else than the original Go program",
		"output-differs-only-inside-the-packed-file": "the converted program differs from the original only when the unit shares a file with other units",
	}[rs.stage]
	det := fmt.Sprintf("unit: %s [%s] env=%s\n--- original Go ---\n%s\n--- converted (x/format.GopstyleSource) ---\n%s\n", u.Key, u.Name, u.Env, src, rs.xgo)
	if rs.msg != "" {
		det += "--- " + rs.stage + " ---\n" + rs.msg + "\n"
	}
	if strings.HasPrefix(rs.stage, "output") || rs.stage == "converted-program-ends-abnormally" {
		det += fmt.Sprintf("--- output ---\noriginal : %q\nconverted: %q\n", want, rs.out)
	}
	return &engine.Failure{Key: u.Key, What: what + " (" + rs.stage + ")", Detail: det}
}

func main() {
	c := engine.New("C25", "exploration")
	if c.IsReplay() {
		var k Case
		c.LoadReplay(&k)
		c.ReplayResult(replay(c, k))
	}
	units := generate(c.Thorough())
	if os.Getenv("C25_COUNT") != "" { // debugging aid: size of the families
		n := map[string]int{}
		for _, u := range units {
			n[strings.SplitN(u.Key, "/", 2)[0]+" env="+strings.SplitN(u.Env, ":", 2)[0]]++
		}
		fmt.Println(len(units), n)
		os.Exit(0)
	}
	for why, n := range excludedCounts {
		c.Hist("excluded_"+why, int64(n))
	}
	if re := os.Getenv("C25_ONLY"); re != "" { // debugging aid: restrict the run to classes matching a regexp
		rx := regexp.MustCompile(re)
		var sel []Unit
		for _, u := range units {
			if rx.MatchString(u.Key + " " + u.Name) {
				sel = append(sel, u)
			}
		}
		units = sel
		c.Cap("C25_ONLY=" + re + ": debugging run over a subset of the classes")
	}
	checkUnits(c, units)
	t0 := time.Now()
	if err := typeCheckSingles(units); err != nil {
		c.Fatal("generator bug: a single-unit Go file is not valid Go: %v", err)
	}
	if os.Getenv("C25_TIMING") != "" {
		fmt.Fprintf(os.Stderr, "[%6.1fs] %d single-unit files type-checked with go/types\n", time.Since(t0).Seconds(), len(units))
	}
	// groups: by env, in order of first appearance, chunks of perProg units
	perProg := 150
	var order []string
	byEnv := map[string][]int{}
	for i, u := range units {
		if _, ok := byEnv[u.Env]; !ok {
			order = append(order, u.Env)
		}
		byEnv[u.Env] = append(byEnv[u.Env], i)
	}
	var groups [][]int
	for _, e := range order {
		idx := byEnv[e]
		for s := 0; s < len(idx); s += perProg {
			t := s + perProg
			if t > len(idx) {
				t = len(idx)
			}
			groups = append(groups, idx[s:t])
		}
	}
	r := &runner{c: c, units: units, res: make([]result, len(units)), refOut: map[int]string{}, perProg: perProg, t0: time.Now()}
	r.run(groups)
	// name-collision units: the conversion is judged, not XGo's member lookup. When the unconverted Go text
	// compiled as XGo (formatter skipped) already differs from Go, the unit is outside the supported subset.
	var twins []int
	for i, u := range units {
		if strings.HasPrefix(u.Key, twinPrefix) && r.res[i].done && r.res[i].stage != "" {
			twins = append(twins, i)
		}
	}
	deviates := r.unconvertedDeviates(twins)
	keys := map[string]bool{}
	found := map[string]bool{}
	var dump *os.File
	if fn := os.Getenv("C25_DUMP"); fn != "" { // debugging aid: every failing unit as a JSON line
		dump, _ = os.Create(fn)
		defer dump.Close()
	}
	for i, u := range units {
		rs := r.res[i]
		if !rs.done {
			c.Fatal("unit %d (%s %s) was never decided", i, u.Key, u.Name)
		}
		if deviates[i] { // not a case of the property: counted, not judged
			c.Hist("excluded_documented_deviation:auto-capitalised-member-lookup", 1)
			continue
		}
		c.Eval(1)
		keys[u.Key] = true
		c.NontrivialN(1)
		src := render(units, []int{i})
		if rs.packed != "" {
			src = rs.packed
		}
		if i%101 == 0 {
			c.Sample(map[string]any{"key": u.Key, "name": u.Name, "go": src, "converted": rs.xgo})
		}
		st := rs.stage
		if st == "" {
			st = "equal-output"
		}
		c.Hist(st, 1)
		c.Hist("rule:"+strings.SplitN(u.Key, "/", 2)[0], 1)
		if dump != nil && os.Getenv("C25_DUMP_ALL") != "" && rs.stage == "" {
			b, _ := json.Marshal(map[string]any{"key": u.Key, "name": u.Name, "stage": "equal-output", "go": src, "xgo": rs.xgo, "want": r.refOut[i], "got": rs.out})
			dump.Write(append(b, '\n'))
		}
		if f := failureOf(u, src, rs, r.marker(i)+r.refOut[i]); f != nil {
			if dump != nil {
				b, _ := json.Marshal(map[string]any{"key": u.Key, "name": u.Name, "stage": rs.stage, "msg": rs.msg, "go": src, "xgo": rs.xgo, "want": r.refOut[i], "got": rs.out})
				dump.Write(append(b, '\n'))
			}
			found[f.Key] = true
			c.Violate(Case{Key: u.Key, Name: u.Name, Env: u.Env, Src: src}, f)
		}
	}
	// every key of the run (the engine prints the first 25 only), known or not
	var fk []string
	for k := range found {
		fk = append(fk, k)
	}
	sort.Strings(fk)
	for _, k := range fk {
		fmt.Println("KEY", k)
	}
	c.Extra["violation_keys"] = fk
	c.Extra["programs_built"] = r.nprog + len(groups)
	c.Extra["files"] = len(groups)
	c.Extra["classes"] = len(keys)
	c.Extra["bound"] = boundText
	c.Rule = "one case = one unit function (plus its private declarations) of a generated Go main file; class = rewrite rule x shadowing kind/shape, inside a class the print function / library function / literal signature varies; every unit contains at least one site the converter rewrites (its own print call), so distinct_nontrivial = evaluations; all units are distinct texts (checked)"
	c.Assumptions = []string{
		"reference = the generated Go file built and run by the Go toolchain (go 1.23 scratch module, GOMAXPROCS=1, empty environment); a reference that does not build or exits abnormally is a generator bug (exit 2)",
		"subject = x/format.GopstyleSource(file) -> parser+cl+gogen in-process as main.xgo -> go build -> run; only stdout and the exit status are compared",
		"generated programs are deterministic: no goroutines, time, addresses or map iteration in the output",
		"the Go code generated for a converted file is type-checked with go/types (source importer) before it is built, so that every unit with an error is found at once; a unit is reported as 'generated Go does not build' on the word of go/types for its single-unit file (replay uses go build)",
		"a unit that passes inside its packed file is not run again alone; a unit that fails inside the packed file is judged on its single-unit file (a difference that exists only in the packed file is reported with the packed file as the case)",
		"a violation key is the class (rewrite rule + shadowing kind/shape), the stage (does not compile / output differs) is part of the description",
		"XGo's documented deviations from Go are outside the supported subset: `$` in string literals and field access beside a method of the capitalised name are enumerated, counted and not run; a failing name-collision unit (lowercase-call/collision:*) is excluded and counted when its unconverted Go text, compiled as XGo without the formatter, already does not behave like Go",
	}
	c.Finish()
}

const twinPrefix = "lowercase-call/collision:"

// unconvertedDeviates compiles the ORIGINAL single-unit Go files as XGo (no formatter) and reports the
// units whose program then does not compile, build, or print what Go prints.
func (r *runner) unconvertedDeviates(idx []int) map[int]bool {
	dev := map[int]bool{}
	if len(idx) == 0 {
		return dev
	}
	s, err := progs.NewScratch()
	if err != nil {
		r.c.Fatal("%v", err)
	}
	defer s.Remove()
	var ps []*progs.Prog
	owner := map[*progs.Prog]int{}
	for _, i := range idx {
		gen, err := progs.CompileXGo("main.xgo", render(r.units, []int{i}), nil)
		if err != nil {
			dev[i] = true
			continue
		}
		p := &progs.Prog{Name: fmt.Sprintf("t%d", i), GoSrc: gen}
		owner[p] = i
		ps = append(ps, p)
	}
	if err := s.BuildAll(ps); err != nil {
		s.Remove()
		r.c.Fatal("%v", err)
	}
	s.RunAll(ps)
	for _, p := range ps {
		i := owner[p]
		if !p.BuildOK || p.Exit != 0 || p.TimedOut || p.Stdout != r.marker(i)+r.refOut[i] {
			dev[i] = true
		}
	}
	r.nprog += len(ps)
	return dev
}

// replay runs one single-unit file through both pipelines.
func replay(c *engine.Check, k Case) *engine.Failure {
	s, err := progs.NewScratch()
	if err != nil {
		c.Fatal("%v", err)
	}
	defer s.Remove()
	u := Unit{Key: k.Key, Name: k.Name, Env: k.Env}
	ref := &progs.Prog{Name: "ref", GoSrc: []byte(k.Src)}
	xgo, gen, stage, msg := translate(k.Src)
	ps := []*progs.Prog{ref}
	var sub *progs.Prog
	if stage == "" {
		sub = &progs.Prog{Name: "sub", GoSrc: gen}
		ps = append(ps, sub)
	}
	if err := s.BuildAll(ps); err != nil {
		c.Fatal("%v", err)
	}
	s.RunAll(ps)
	if !ref.BuildOK || ref.Exit != 0 || ref.TimedOut {
		s.Remove()
		c.Fatal("the original Go program of the replay file does not build or run: %s %s", ref.BuildErr, ref.Stderr)
	}
	rs := result{done: true, stage: stage, msg: msg, xgo: xgo}
	if sub != nil {
		switch {
		case !sub.BuildOK:
			rs.stage, rs.msg = "generated-go-does-not-build", firstLines(sub.BuildErr, 4)
		case sub.Exit != 0 || sub.TimedOut:
			rs.stage, rs.out = "converted-program-ends-abnormally", sub.Stdout
			rs.msg = fmt.Sprintf("exit=%d timeout=%v %s", sub.Exit, sub.TimedOut, firstSegment(progs.PanicHeader(sub.Stderr)))
		case sub.Stdout != ref.Stdout:
			rs.stage, rs.out = "output-differs", sub.Stdout
		}
	}
	if f := failureOf(u, k.Src, rs, ref.Stdout); f != nil && strings.HasPrefix(k.Key, twinPrefix) {
		// same rule as the run: the unconverted text compiled as XGo must behave like Go
		dev := true
		if g2, err := progs.CompileXGo("main.xgo", k.Src, nil); err == nil {
			t := &progs.Prog{Name: "twin", GoSrc: g2}
			if err := s.BuildAll([]*progs.Prog{t}); err == nil && t.BuildOK {
				s.RunAll([]*progs.Prog{t})
				dev = t.Exit != 0 || t.TimedOut || t.Stdout != ref.Stdout
			}
		}
		if dev {
			fmt.Println("EXCLUDED documented deviation (auto-capitalised member lookup): the unconverted Go text compiled as XGo already differs from Go")
			return nil
		}
		return f
	}
	return failureOf(u, k.Src, rs, ref.Stdout)
}

// checkUnits: generator sanity (unique names per env are the generator's duty; keys must be set).
func checkUnits(c *engine.Check, units []Unit) {
	seen := map[string]int{}
	for i, u := range units {
		if u.Key == "" || u.Body == "" {
			c.Fatal("generator bug: unit %d has no key/body", i)
		}
		id := u.Env + "\x00" + u.Decls + "\x00" + u.Body
		if j, ok := seen[id]; ok {
			c.Fatal("generator bug: units %d and %d are identical (%s %s)", j, i, u.Key, u.Name)
		}
		seen[id] = i
	}
}

// C08: compilation output is deterministic.
// Mode B over owned nondeterminism: every `range` over a map in the repository packages cl, ast,
// parser, x/build (found with go/types by rewriter R2, engine/maprw) iterates in an order chosen
// by this harness. The canonical run uses sorted order; a deviation replaces the order of ONE
// dynamic visit by another permutation. All runs with <=1 (quick) / <=2 (thorough) deviations are
// executed for every package of the pool, plus every order in which the directory presents the
// files, plus repetition (A;A, A;B;A) in one process and a compile in a fresh process. Oracle: the
// bytes written by Package.WriteTo and the error strings equal those of the canonical run.
package main

import (
	"bytes"
	"crypto/sha256"
	"encoding/hex"
	"encoding/json"
	"fmt"
	"os"
	"os/exec"
	"path/filepath"
	"sort"
	"strings"

	"github.com/goplus/gogen"
	"github.com/goplus/gogen/packages"
	"github.com/goplus/mod/modfile"
	"github.com/goplus/xgo/cl"
	"github.com/goplus/xgo/parser"
	"github.com/goplus/xgo/parser/fsx/memfs"
	"github.com/goplus/xgo/token"
	"github.com/goplus/xgo/x/build"

	"verif/engine"
	"verif/engine/vmap"
)

// lookupClass is the class-framework table of the repository's own cl tests (cl/cltest).
func lookupClass(ext string) (c *modfile.Project, ok bool) {
	switch ext {
	case ".tgmx", ".tspx":
		return &modfile.Project{Ext: ".tgmx", Class: "*MyGame", Works: []*modfile.Class{{Ext: ".tspx", Class: "Sprite"}},
			PkgPaths: []string{"github.com/goplus/xgo/cl/internal/spx", "math"}}, true
	case ".t2gmx", ".t2spx":
		return &modfile.Project{Ext: ".t2gmx", Class: "Game", Works: []*modfile.Class{{Ext: ".t2spx", Class: "Sprite"}},
			PkgPaths: []string{"github.com/goplus/xgo/cl/internal/spx2"}}, true
	case ".t4gmx", ".t4spx":
		return &modfile.Project{Ext: ".t4gmx", Class: "*MyGame", Works: []*modfile.Class{{Ext: ".t4spx", Class: "Sprite"}},
			PkgPaths: []string{"github.com/goplus/xgo/cl/internal/spx4", "math"}}, true
	case "_spx.gox":
		return &modfile.Project{Ext: "_spx.gox", Class: "Game", Works: []*modfile.Class{{Ext: "_spx.gox", Class: "Sprite"}},
			PkgPaths: []string{"github.com/goplus/xgo/cl/internal/spx3", "math"},
			Import:   []*modfile.Import{{Path: "github.com/goplus/xgo/cl/internal/spx3/jwt"}}}, true
	case "_xtest.gox":
		return &modfile.Project{Ext: "_xtest.gox", Class: "App", Works: []*modfile.Class{{Ext: "_xtest.gox", Class: "Case"}},
			PkgPaths: []string{"github.com/goplus/xgo/test", "testing"}}, true
	case "_mcp.gox", "_tool.gox", "_prompt.gox":
		return &modfile.Project{Ext: "_mcp.gox", Class: "Game", Works: []*modfile.Class{
			{Ext: "_tool.gox", Class: "Tool", Proto: "ToolProto", Prefix: "Tool_"},
			{Ext: "_prompt.gox", Class: "Prompt", Proto: "PromptProto", Embedded: true},
			{Ext: "_res.gox", Class: "Resource", Proto: "ResourceProto"}},
			PkgPaths: []string{"github.com/goplus/xgo/cl/internal/mcp"}}, true
	}
	return
}

func classKind(fname string) (isProj bool, ok bool) {
	ext := modfile.ClassExt(fname)
	c, ok := lookupClass(ext)
	if ok {
		isProj = c.IsProj(ext, fname)
	}
	return
}

var imp *packages.Importer

// compile runs the production path once: ParseFSDir on an in-memory directory that lists the
// files in the given order, cl.NewPackage, WriteTo. The result is one string: the Go text of
// every written file, or the error list.
func compile(p Pkg, listing []string) (res string) {
	defer func() {
		if r := recover(); r != nil {
			res = fmt.Sprintf("ESCAPED-PANIC: %v", r)
		}
	}()
	fset := token.NewFileSet()
	if imp == nil {
		imp = packages.NewImporter(token.NewFileSet())
	}
	dir := "/p"
	files := map[string]string{}
	for n, s := range p.Files {
		files[filepath.Join(dir, n)] = s
	}
	fs := memfs.New(map[string][]string{dir: listing}, files)
	if strings.HasPrefix(p.Name, "xbuild-") {
		// the build helper's own path: it also chooses which package of the directory is compiled
		bctx := build.NewContext(imp, fset)
		out, err := bctx.BuildFSDir(fs, dir)
		if err != nil {
			return "XBUILD ERRORS:\n" + err.Error()
		}
		return "XBUILD\n" + string(out)
	}
	pkgs, err := parser.ParseFSDir(fset, fs, dir, parser.Config{ClassKind: classKind, Mode: parser.ParseComments})
	if err != nil {
		return "PARSE-ERROR:\n" + err.Error()
	}
	var names []string
	for n := range pkgs {
		names = append(names, n)
	}
	sort.Strings(names)
	var sb strings.Builder
	for _, n := range names {
		conf := &cl.Config{Fset: fset, Importer: imp, LookupClass: lookupClass, RelativeBase: "/"}
		out, err := cl.NewPackage("", pkgs[n], conf)
		if err != nil {
			fmt.Fprintf(&sb, "PACKAGE %s ERRORS:\n%s\n", n, err.Error())
			continue
		}
		fmt.Fprintf(&sb, "PACKAGE %s\n", n)
		writeAll(&sb, out)
	}
	return sb.String()
}

// compileSameAST parses the package once and lowers the SAME syntax trees twice (what a tool that keeps parsed
// files does); both results are returned. Lowering must not leave the trees in a state that changes the output.
func compileSameAST(p Pkg) (first, second string) {
	defer func() {
		if r := recover(); r != nil {
			second = fmt.Sprintf("ESCAPED-PANIC: %v", r)
		}
	}()
	fset := token.NewFileSet()
	dir := "/p"
	files := map[string]string{}
	for n, s := range p.Files {
		files[filepath.Join(dir, n)] = s
	}
	fs := memfs.New(map[string][]string{dir: p.names()}, files)
	pkgs, err := parser.ParseFSDir(fset, fs, dir, parser.Config{ClassKind: classKind, Mode: parser.ParseComments})
	if err != nil {
		return "", ""
	}
	var names []string
	for n := range pkgs {
		names = append(names, n)
	}
	sort.Strings(names)
	run := func() string {
		var sb strings.Builder
		for _, n := range names {
			conf := &cl.Config{Fset: fset, Importer: imp, LookupClass: lookupClass, RelativeBase: "/"}
			out, err := cl.NewPackage("", pkgs[n], conf)
			if err != nil {
				fmt.Fprintf(&sb, "PACKAGE %s ERRORS:\n%s\n", n, err.Error())
				continue
			}
			fmt.Fprintf(&sb, "PACKAGE %s\n", n)
			writeAll(&sb, out)
		}
		return sb.String()
	}
	first = run()
	second = run()
	return
}

func writeAll(sb *strings.Builder, out *gogen.Package) {
	var b bytes.Buffer
	if err := out.WriteTo(&b); err != nil {
		fmt.Fprintf(sb, "WRITE-ERROR: %v\n", err)
	}
	sb.Write(b.Bytes())
	for _, f := range []string{"xgo_autogen_test.go", "xgo_autogen2_test.go"} {
		var tb bytes.Buffer
		if err := out.WriteTo(&tb, f); err == nil && tb.Len() > 0 {
			fmt.Fprintf(sb, "FILE %s\n%s", f, tb.String())
		}
	}
}

// ---- deviations ----

// alternatives lists the non-identity permutations tried at a visit with n entries: all of them
// for n <= full, otherwise the reversal (flips every pair), every element moved to the front and
// every element moved to the back (each element becomes first / last once).
func alternatives(n, full int) [][]int {
	id := make([]int, n)
	for i := range id {
		id[i] = i
	}
	var out [][]int
	seen := map[string]bool{fmt.Sprint(id): true}
	add := func(p []int) {
		k := fmt.Sprint(p)
		if !seen[k] {
			seen[k] = true
			out = append(out, p)
		}
	}
	if n <= full {
		var rec func(cur []int, used []bool)
		rec = func(cur []int, used []bool) {
			if len(cur) == n {
				add(append([]int(nil), cur...))
				return
			}
			for i := 0; i < n; i++ {
				if !used[i] {
					used[i] = true
					rec(append(cur, i), used)
					used[i] = false
				}
			}
		}
		rec(nil, make([]bool, n))
		return out
	}
	rev := make([]int, n)
	for i := range rev {
		rev[i] = n - 1 - i
	}
	add(rev)
	for i := 1; i < n; i++ { // i to the front
		p := []int{i}
		for j := 0; j < n; j++ {
			if j != i {
				p = append(p, j)
			}
		}
		add(p)
	}
	for i := 0; i < n-1; i++ { // i to the back
		var p []int
		for j := 0; j < n; j++ {
			if j != i {
				p = append(p, j)
			}
		}
		add(append(p, i))
	}
	return out
}

type Dev struct {
	Visit int    `json:"visit"` // index among the visits with >= 2 entries, in execution order
	Site  string `json:"site"`
	Perm  []int  `json:"perm"`
}

type Case struct {
	Pkg     string   `json:"pkg"`
	Kind    string   `json:"kind"` // map-order | listing | repeat | fresh-process
	Devs    []Dev    `json:"devs,omitempty"`
	Listing []string `json:"listing,omitempty"`
	Between string   `json:"between,omitempty"`
}

func runWith(p Pkg, listing []string, devs []Dev) (string, []vmap.Visit) {
	vmap.Reset()
	vmap.Decide = func(index int, site string, n int) []int {
		for _, d := range devs {
			if d.Visit == index {
				if d.Site != site || len(d.Perm) != n {
					return nil // the earlier deviation changed the path; this one no longer applies
				}
				return d.Perm
			}
		}
		return nil
	}
	res := compile(p, listing)
	vmap.Decide = nil
	return res, append([]vmap.Visit(nil), vmap.Log...)
}

func sha(s string) string {
	h := sha256.Sum256([]byte(s))
	return hex.EncodeToString(h[:8])
}

func firstDiff(a, b string) string {
	la, lb := strings.Split(a, "\n"), strings.Split(b, "\n")
	for i := 0; i < len(la) || i < len(lb); i++ {
		var x, y string
		if i < len(la) {
			x = la[i]
		}
		if i < len(lb) {
			y = lb[i]
		}
		if x != y {
			return fmt.Sprintf("first difference at line %d:\n  canonical: %q\n  this run : %q", i+1, x, y)
		}
	}
	return "no line difference"
}

func siteKey(devs []Dev) string {
	var s []string
	for _, d := range devs {
		s = append(s, d.Site)
	}
	return strings.Join(s, "+")
}

func find(ps []Pkg, name string) (Pkg, bool) {
	for _, p := range ps {
		if p.Name == name {
			return p, true
		}
	}
	return Pkg{}, false
}

func evalCase(ps []Pkg, k Case) *engine.Failure {
	p, ok := find(ps, k.Pkg)
	if !ok {
		return &engine.Failure{Key: "harness:unknown-package", What: "replay names a package that is not in the pool"}
	}
	canon, _ := runWith(p, p.names(), nil)
	var got string
	switch k.Kind {
	case "map-order":
		got, _ = runWith(p, p.names(), k.Devs)
	case "listing":
		got, _ = runWith(p, k.Listing, nil)
	case "repeat":
		if q, ok := find(ps, k.Between); ok {
			runWith(q, q.names(), nil)
		}
		got, _ = runWith(p, p.names(), nil)
	case "fresh-process":
		got = freshProcess(p)
	case "same-ast":
		canon, got = compileSameAST(p)
	}
	if got == canon {
		return nil
	}
	return differs(k, canon, got)
}

func differs(k Case, canon, got string) *engine.Failure {
	key := k.Kind
	if k.Kind == "map-order" {
		key += ":" + siteKey(k.Devs)
	}
	cls := "output"
	if strings.Contains(canon, "ERRORS:") || strings.Contains(got, "ERRORS:") {
		cls = "error-list"
	}
	return &engine.Failure{Key: key + "/" + cls, What: "the compiler's result depends on " + map[string]string{
		"map-order": "the iteration order of a map", "listing": "the order in which the directory lists the files",
		"repeat": "what was compiled before in the same process", "fresh-process": "whether the process is fresh",
		"same-ast": "whether the syntax trees have been lowered before"}[k.Kind],
		Detail: fmt.Sprintf("package %s, case %+v\n%s", k.Pkg, k, firstDiff(canon, got))}
}

func freshProcess(p Pkg) string {
	cmd := exec.Command(os.Args[0], "oneshot", p.Name)
	cmd.Env = append(os.Environ(), "VERIF_C08_ONESHOT=1")
	out, err := cmd.Output()
	if err != nil {
		return "FRESH-PROCESS-FAILED: " + err.Error()
	}
	return string(out)
}

func perms(xs []string) [][]string {
	if len(xs) <= 1 {
		return [][]string{append([]string(nil), xs...)}
	}
	var out [][]string
	for i := range xs {
		rest := append(append([]string(nil), xs[:i]...), xs[i+1:]...)
		for _, p := range perms(rest) {
			out = append(out, append([]string{xs[i]}, p...))
		}
	}
	return out
}

func main() {
	ps := allPkgs()
	if len(os.Args) >= 3 && os.Args[1] == "oneshot" {
		if p, ok := find(ps, os.Args[2]); ok {
			r, _ := runWith(p, p.names(), nil)
			os.Stdout.WriteString(r)
		}
		return
	}
	c := engine.New("C08", "model_checking")
	if c.IsReplay() {
		var k Case
		c.LoadReplay(&k)
		c.ReplayResult(evalCase(ps, k))
	}
	full := 3
	maxDev := 1
	if c.Thorough() {
		full, maxDev = 4, 2
	}
	states, transitions := 0, 0
	siteVisits := map[string]int{}
	maxN := 0
	outcomes := map[string]bool{}
	pkgIndex := 0
	for _, p := range ps {
		canon, log0 := runWith(p, p.names(), nil)
		transitions++
		states++
		outcomes[sha(canon)] = true
		if strings.HasPrefix(canon, "ESCAPED-PANIC") {
			c.Violate(Case{Pkg: p.Name, Kind: "map-order"}, &engine.Failure{Key: "harness:canonical-run-panics", What: "the canonical compile panics", Detail: canon})
			continue
		}
		cls := "compiles"
		if strings.Contains(canon, "ERRORS:") {
			cls = "has-errors"
		}
		c.Hist("package:"+cls, 1)
		if len(c.Extra) < 0 {
			_ = cls
		}
		for _, v := range log0 {
			siteVisits[v.Site]++
			if v.N > maxN {
				maxN = v.N
			}
		}
		// deviation-bounded exploration of map orders
		var explore func(devs []Dev, log []vmap.Visit, from int)
		explore = func(devs []Dev, log []vmap.Visit, from int) {
			for j := from; j < len(log); j++ {
				if c.Expired() {
					return
				}
				for _, perm := range alternatives(log[j].N, full) {
					nd := append(append([]Dev(nil), devs...), Dev{j, log[j].Site, perm})
					got, nlog := runWith(p, p.names(), nd)
					transitions++
					states++
					c.Eval(1)
					c.NontrivialN(1)
					c.Hist(fmt.Sprintf("runs-with-%d-deviation(s)", len(nd)), 1)
					k := Case{Pkg: p.Name, Kind: "map-order", Devs: nd}
					if got != canon {
						c.Violate(k, differs(k, canon, got))
					} else if len(nd) < maxDev {
						explore(nd, nlog, j+1)
					}
				}
			}
		}
		explore(nil, log0, 0)
		// every order in which the directory presents the files
		names := p.names()
		if len(names) <= 4 || c.Thorough() && len(names) <= 5 {
			for _, l := range perms(names) {
				got, _ := runWith(p, l, nil)
				transitions++
				c.Eval(1)
				if strings.Join(l, ",") != strings.Join(names, ",") {
					c.NontrivialN(1)
				}
				c.Hist("file-listing-orders", 1)
				if got != canon {
					k := Case{Pkg: p.Name, Kind: "listing", Listing: l}
					c.Violate(k, differs(k, canon, got))
				}
			}
		} else {
			c.Hist("file-listing-orders:package-too-large-only-rotations", 1)
			for r := 1; r < len(names); r++ {
				l := append(append([]string(nil), names[r:]...), names[:r]...)
				got, _ := runWith(p, l, nil)
				transitions++
				c.Eval(1)
				c.NontrivialN(1)
				if got != canon {
					k := Case{Pkg: p.Name, Kind: "listing", Listing: l}
					c.Violate(k, differs(k, canon, got))
				}
			}
		}
		// repetition in one process: A;A and A;B;A
		for _, q := range ps {
			if !c.Thorough() && q.Name != p.Name && (len(q.Name)+len(p.Name))%4 != 0 {
				continue // quick: a fixed quarter of the ordered pairs
			}
			if q.Name != p.Name {
				runWith(q, q.names(), nil)
				transitions++
			}
			got, _ := runWith(p, p.names(), nil)
			transitions++
			c.Eval(1)
			c.NontrivialN(1)
			c.Hist("repetitions", 1)
			if got != canon {
				k := Case{Pkg: p.Name, Kind: "repeat", Between: q.Name}
				c.Violate(k, differs(k, canon, got))
			}
		}
		// the same syntax trees lowered twice
		if !strings.HasPrefix(p.Name, "xbuild-") {
			r1, r2 := compileSameAST(p)
			transitions += 2
			c.Eval(1)
			c.NontrivialN(1)
			c.Hist("same-ast-recompilations", 1)
			if r1 != r2 {
				k := Case{Pkg: p.Name, Kind: "same-ast"}
				c.Violate(k, differs(k, r1, r2))
			}
		}
		// fresh process (quick: every third package of the pool; thorough: all)
		pkgIndex++
		if c.Thorough() || pkgIndex%3 == 1 {
			got := freshProcess(p)
			transitions++
			c.Eval(1)
			c.NontrivialN(1)
			c.Hist("fresh-process-compiles", 1)
			if got != canon {
				k := Case{Pkg: p.Name, Kind: "fresh-process"}
				c.Violate(k, differs(k, canon, got))
			}
		}
		if len(log0) > 0 && states%7 == 0 {
			c.Sample(map[string]any{"package": p.Name, "files": p.names(), "map_range_visits": log0, "canonical_result_sha": sha(canon)})
		}
	}
	if c.Expired() {
		c.Cap("deadline reached before the deviation enumeration was complete")
	}
	var sites []string
	for s, n := range siteVisits {
		sites = append(sites, fmt.Sprintf("%s x%d", s, n))
	}
	sort.Strings(sites)
	var unstable []string
	for s := range vmap.Unstable {
		unstable = append(unstable, s)
	}
	sort.Strings(unstable)
	if len(unstable) > 0 {
		c.Cap("sites whose key type has no run-independent canonical order (address order used): " + strings.Join(unstable, ", "))
	}
	static, _ := json.Marshal(vmap.Sites)
	c.Extra["states"] = states
	c.Extra["transitions"] = transitions
	c.Extra["traces_validated_against_impl"] = transitions
	c.Extra["bound"] = map[string]any{"packages": len(ps), "max_deviations": maxDev, "all_permutations_up_to_n": full, "largest_map_visited": maxN}
	c.Extra["owned_map_range_sites_static"] = json.RawMessage(static)
	c.Extra["owned_map_range_sites_visited"] = sites
	c.Extra["distinct_canonical_results"] = len(outcomes)
	c.Rule = "every compile is a transition executed on the real parser+cl+gogen; a state is (package, deviation vector); distinct_nontrivial counts runs that differ from the canonical run in a map order, a file listing order, a predecessor compile or the process"
	c.Assumptions = []string{
		"map iteration is owned only inside the rewritten repository packages (cl, ast, parser, x/build, cl/outline): orders inside gogen, go/types and the importer are not",
		"a deviation replaces the order of one dynamic visit; for maps larger than the full-permutation bound only the reversal, each-element-first and each-element-last orders are tried",
		"the rewritten loop reads values at iteration time and skips entries deleted during the loop, like Go; entries added during the loop are not visited (Go permits either)",
	}
	c.Finish()
}

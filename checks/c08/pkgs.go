package main

import (
	"os"
	"path/filepath"
	"sort"

	"verif/progs"
)

// Pkg is one package given to the compiler: file name -> source (".go" files are the package's Go files).
type Pkg struct {
	Name  string
	Files map[string]string
}

func one(name, src string) Pkg { return Pkg{name, map[string]string{"main.xgo": src}} }

const symbols = `import "fmt"

const (
	A = iota
	B
	C
)

var (
	x, y = 1, "s"
	z    = f(x)
)

type T struct {
	a int
	b string
}

type I interface {
	m() int
}

type U = T

func (t *T) m() int { return t.a }
func (t T) n() string { return t.b }

func f(v int) int { return v + A }
func g(s string) string { return s + y }

func addInt(a, b int) int { return a + b }
func addStr(a, b string) string { return a + b }

func add = (
	addInt
	addStr
	func(a, b float64) float64 {
		return a + b
	}
)

func (t *T) mulInt(a int) int { return t.a * a }
func (t *T) mulStr(a string) string { return t.b + a }

func (T).mul = (
	(T).mulInt
	(T).mulStr
)

func init() {
	fmt.Println("init", z)
}

var t = &T{1, "b"}
var i I = t

fmt.Println add(1, 2), add("a", "b"), add(1.5, 2.5)
fmt.Println t.mul(3), t.mul("c"), i.m(), g("q"), U{}.b
`

var xgoPkgs = []Pkg{
	one("symbols", symbols),
	one("script", "x := [1, 2, 3]\necho [v*v for v <- x if v > 1]\nm := {\"a\": 1, \"b\": 2}\nfor k, v <- m {\n\techo k, v\n}\n"),
	one("lowered-twice", "func app(f func(int, int) int) int {\n\treturn f(1, 2)\n}\n\nfor i <- 5:0:-1 {\n\techo i\n}\nfor i <- 0:10:2 {\n\techo i\n}\necho [[a, b] for a <- [1, 2] for b <- [3, 4]]\necho {a + b: a for a <- [1, 2] if b > a for b <- [3, 4]}\nx := [1, 2, 3]\nx <- 4, 5\ny := \"${x[0]}\"\necho y, len(x[1:])\necho app((a, b) => a + b)\n"),
	{"two-files", map[string]string{
		"a.xgo": "var av = bf() + 1\n\nfunc af() int { return bv }\n\ntype AT struct{ B *BT }\n\necho av, af()\n",
		"b.xgo": "var bv = 2\n\nfunc bf() int { return 3 }\n\ntype BT struct{ A *AT }\n\nfunc init() { echo \"b\" }\n",
	}},
	{"three-files", map[string]string{
		"a.xgo": "func main() {\n\techo fb(), fc(), va\n}\n\nvar va = vc * 2\n",
		"b.xgo": "func fb() string { return \"b\" + fcs() }\n\nconst KB = KC + 1\n\ntype TB struct{ TC }\n",
		"c.xgo": "func fc() int { return KB }\n\nfunc fcs() string { return \"c\" }\n\nconst KC = 7\n\nvar vc = KB\n\ntype TC struct{ v int }\n\nfunc (t TC) get() int { return t.v }\n",
	}},
	{"mixed-go", map[string]string{
		"foo.go":   "package main\n\ntype N struct{ v int }\n\nfunc (n *N) OnKey__0(a string) string { return \"s\" + a }\nfunc (n *N) OnKey__1(a int) string { return \"i\" }\n\nfunc Show__0(a string) string { return \"S\" + a }\nfunc Show__1(a int) string { return \"I\" }\n\nfunc Plain(a int) int { return a + 1 }\n\nvar GoVar = 5\n",
		"main.xgo": "n := &N{}\necho n.onKey(\"a\"), n.onKey(1), show(\"x\"), show(2), plain(GoVar)\n",
	}},
	{"mixed-two-go", map[string]string{
		"a.go":     "package main\n\ntype A struct{ B *B }\n\nfunc Mk__0(a int) *A { return &A{} }\nfunc Mk__1(s string) *B { return &B{} }\n\nconst Gopo_Add = \"AddInt,AddStr\"\n\nfunc AddInt(a, b int) int { return a + b }\n",
		"b.go":     "package main\n\ntype B struct{ A *A }\n\nfunc AddStr(a, b string) string { return a + b }\n\nfunc (b *B) Do__0() int { return 0 }\nfunc (b *B) Do__1(x int) int { return x }\n",
		"main.xgo": "echo mk(1) != nil, mk(\"s\").do(), mk(\"t\").do(4), add(1, 2), add(\"a\", \"b\")\n",
	}},
	{"gox-classes", map[string]string{
		"Rect.gox":   "var (\n\tW, H int\n\tname string\n)\n\nfunc Area() int {\n\treturn W * H\n}\n\nfunc setName(s string) {\n\tname = s\n}\n",
		"Circle.gox": "var (\n\tR int\n)\n\nfunc Area() int {\n\treturn 3 * R * R\n}\n",
		"main.xgo":   "r := &Rect{W: 2, H: 3}\nr.setName \"r\"\nc := &Circle{R: 2}\necho r.area, c.area\n",
	}},
	{"spx-project", map[string]string{
		"index.tgmx": "import \"fmt\"\n\nconst Foo = 1\n\nvar (\n\tKai Kai\n\tBob Bob\n)\n\nfunc bar() {}\n\nfunc onInit() {\n\tbar\n\tfmt.Println(\"Hi\", Foo)\n}\n",
		"Kai.tspx":   "var (\n\ta int\n)\n\nfunc onMsg(msg string) {\n\tfor {\n\t\tposition.add 5, 2\n\t}\n}\n",
		"Bob.tspx":   "func onCloned() {\n\tsay \"Hi\"\n}\n",
	}},
	{"spx-no-project-file", map[string]string{
		"Kai.tspx": "func onMsg(msg string) {\n}\n",
		"Bob.tspx": "func onCloned() {\n\tsay \"Hi\"\n}\n",
	}},
	{"spx2-project", map[string]string{
		"index.t2gmx": "println \"Hi\"\n",
		"Kai.t2spx":   "println \"Hi, Sprite\"\n",
		"Bob.t2spx":   "println \"Hi, Bob\"\n",
	}},
	{"two-frameworks", map[string]string{
		"index.tgmx":  "func onInit() {\n}\n",
		"Kai.tspx":    "func onMsg(msg string) {\n}\n",
		"main.t2gmx":  "println \"Hi\"\n",
		"Bob.t2spx":   "println \"Hi, Bob\"\n",
	}},
	{"two-frameworks-no-main", map[string]string{
		"Kai.tspx":  "func onMsg(msg string) {\n}\n",
		"Bob.t2spx": "println \"Hi, Bob\"\n",
		"Tom.t2spx": "println \"Hi, Tom\"\n",
	}},
	// compiled through x/build (BuildFSDir), which picks the package of the directory itself
	{"xbuild-script-and-lib", map[string]string{
		"main.xgo": "echo add(1, 2)\n",
		"lib.xgo":  "func add(a, b int) int { return a + b }\n",
	}},
	{"xbuild-two-non-main-packages", map[string]string{
		"a.xgo": "package foo\n\nfunc A() int { return 1 }\n",
		"b.xgo": "package bar\n\nfunc B() int { return 2 }\n",
	}},
	{"xbuild-three-non-main-packages", map[string]string{
		"a.xgo": "package foo\n\nfunc A() int { return 1 }\n",
		"b.xgo": "package bar\n\nfunc B() int { return 2 }\n",
		"c.xgo": "package baz\n\nfunc C() int { return undefinedC }\n",
	}},
	// erroneous packages: the error list must be reproducible too
	{"err-redeclared-across-files", map[string]string{
		"a.xgo": "func foo() {}\n\nvar v = 1\n\ntype T int\n",
		"b.xgo": "func foo() {}\n\nvar v = 2\n\ntype T string\n",
		"c.xgo": "func foo() {}\n\nconst v = 3\n",
	}},
	{"err-undefined-names", map[string]string{
		"a.xgo": "func fa() {\n\tua()\n\techo ub\n}\n\nvar va = uc\n",
		"b.xgo": "func fb() int {\n\treturn ud + ue\n}\n\ntype TB struct{ f UF }\n",
		"c.xgo": "func fc() {\n\tvar x UG\n\t_ = x\n\tuh.foo()\n}\n",
	}},
	{"err-mixed-redeclares-go", map[string]string{
		"foo.go":   "package main\n\nfunc Foo() {}\n\ntype T struct{}\n\nvar V = 1\n",
		"bar.go":   "package main\n\nfunc Bar() {}\n\ntype U struct{}\n",
		"main.xgo": "func Foo() {}\n\ntype T int\n\ntype U int\n\nfunc Bar() {}\n",
	}},
	{"err-mixed-go-undefined-types", map[string]string{
		"foo.go":   "package main\n\ntype A struct{ x Undef1 }\n\ntype B struct{ y Undef2 }\n\ntype C = Undef5\n\nfunc F__0(a Undef3) {}\n\nfunc F__1(b Undef4) {}\n\nfunc (a *A) M__0(v Undef6) {}\n\nfunc (a *A) M__1(v Undef7) {}\n",
		"bar.go":   "package main\n\ntype D struct{ z Undef8 }\n\nfunc G__0(a Undef9) {}\n\nfunc G__1(b int) {}\n",
		"main.xgo": "var a A\nvar d D\necho a, d\nf 1\ng 2\n",
	}},
	{"err-type-errors", map[string]string{
		"a.xgo": "func fa() {\n\tvar s string = 1\n\tvar i int = \"a\"\n\t_, _ = s, i\n}\n",
		"b.xgo": "func fb() {\n\tx := 1 + \"a\"\n\ty := f(1, 2, 3)\n\t_, _ = x, y\n}\n\nfunc f(a int) int { return a }\n",
	}},
	{"err-overload-conflicts", map[string]string{
		"a.xgo": "func a1(x int) {}\nfunc a2(x string) {}\n\nfunc over = (\n\ta1\n\ta2\n\tmissing\n)\n",
		"b.xgo": "func over(x float64) {}\n\nfunc over2 = (\n\tnope1\n\tnope2\n)\n",
	}},
	{"err-class-files", map[string]string{
		"Rect.gox":   "var (\n\tW int\n)\n\nfunc Area() int {\n\treturn W * undefinedH\n}\n",
		"Circle.gox": "var (\n\tR int\n)\n\nfunc Area() int {\n\treturn \"x\"\n}\n",
		"main.xgo":   "echo Rect{}.nope, Circle{}.nope2\n",
	}},
	{"err-spx-errors", map[string]string{
		"index.tgmx": "func onInit() {\n\tnothere1\n}\n",
		"Kai.tspx":   "func onMsg(msg string) {\n\tnothere2\n}\n",
		"Bob.tspx":   "func onCloned() {\n\tnothere3 \"Hi\"\n}\n",
	}},
	{"err-dup-type-switch", map[string]string{
		"main.xgo": "func f(v any) {\n\tswitch v.(type) {\n\tcase int, string, int, string, nil, nil:\n\tcase bool, int:\n\t}\n}\n",
	}},
	{"err-dup-type-switch-composite", map[string]string{
		"main.xgo": "type T struct{}\n\nfunc f(v any) {\n\tswitch v.(type) {\n\tcase []int, []int, []int:\n\tcase map[string]int, *T, map[string]int, *T, map[string]int:\n\tcase func(int) string, []int, func(int) string, *T:\n\t}\n}\n",
	}},
	{"err-duplicate-methods", map[string]string{
		"a.xgo": "type T struct{}\n\nfunc (T) m() {}\nfunc (T) n() {}\n",
		"b.xgo": "func (T) m() {}\nfunc (T) n() {}\n\ntype T2 struct{ T }\n",
	}},
	{"imports-and-init", map[string]string{
		"a.xgo": "import (\n\t\"fmt\"\n\t\"strings\"\n)\n\nfunc fa() { fmt.Println(strings.ToUpper(\"a\")) }\n",
		"b.xgo": "import (\n\t\"os\"\n\t\"strings\"\n\t\"sort\"\n)\n\nfunc fb() { sort.Ints(nil); _ = os.Args; _ = strings.Repeat }\n\nfa()\nfb()\n",
	}},
}

// repoDirs lists test directories of the repository whose files are compiled as they are.
var repoDirs = []string{"cl/_testspx/basic", "cl/_testspx/multiworks", "cl/_testspx/init", "cl/_testspx/newobj", "cl/_testspx/nogame", "cl/_testspx/singlework",
	"cl/_testgop/rangeexpr", "cl/_testgop/append1", "cl/_testgop/unit", "cl/_testgop/domaintext-json"}

func allPkgs() []Pkg {
	ps := append([]Pkg(nil), xgoPkgs...)
	for _, d := range repoDirs {
		dir := filepath.Join(progs.RepoDir(), d)
		ents, err := os.ReadDir(dir)
		if err != nil {
			continue
		}
		p := Pkg{Name: "repo:" + d, Files: map[string]string{}}
		for _, e := range ents {
			n := e.Name()
			if e.IsDir() || n == "out.go" || n == "result.txt" {
				continue
			}
			b, err := os.ReadFile(filepath.Join(dir, n))
			if err == nil {
				p.Files[n] = string(b)
			}
		}
		if len(p.Files) > 0 {
			ps = append(ps, p)
		}
	}
	return ps
}

func (p Pkg) names() []string {
	var ns []string
	for n := range p.Files {
		ns = append(ns, n)
	}
	sort.Strings(ns)
	return ns
}

// C41: closing a fake connection unblocks pending I/O; data arrives in order and unmodified.
// Mode S: every schedule (bounded preemptions, all select tie-breaks) of reader / writer /
// closer / late-user threads on the real x/fakenet package compiled against engine/vrt.
package main

import (
	"fmt"
	"io"
	"net"
	"strings"

	"github.com/goplus/xgo/x/fakenet"
	"verif/engine"
	"verif/engine/smode"
	"verif/engine/vrt"
)

// ---- transports built on vrt primitives only ----

// scriptIn is the `in` side: chunks arrive through a virtual channel; Read blocks until data or Close.
type scriptIn struct {
	data   *vrt.Chan[[]byte]
	closed *vrt.Chan[struct{}]
	rest   []byte
	isDone bool
}

func newIn() *scriptIn {
	return &scriptIn{data: vrt.NewChan[[]byte](4), closed: vrt.NewChan[struct{}](0)}
}
func (s *scriptIn) feed(b string) { s.data.Send([]byte(b)) }
func (s *scriptIn) Read(p []byte) (int, error) {
	if len(s.rest) == 0 {
		sel := vrt.NewSel(false)
		r := vrt.AddRecv(sel, s.data)
		vrt.AddRecv(sel, s.closed)
		if sel.Run() != 0 {
			return 0, io.ErrClosedPipe
		}
		s.rest = r.Val()
	}
	n := copy(p, s.rest)
	s.rest = s.rest[n:]
	return n, nil
}
func (s *scriptIn) Close() error {
	if !s.isDone {
		s.isDone = true
		s.closed.Close()
	}
	return nil
}

// recOut is the `out` side: records every chunk handed to it (one scheduling point per Write).
type recOut struct {
	chunks []string
	closed bool
	gate   *vrt.Chan[struct{}] // non-nil: every Write blocks until Close (a peer that does not drain)
}

func (r *recOut) Write(p []byte) (int, error) {
	vrt.SchedPoint("out.Write")
	if r.gate != nil {
		r.gate.Recv()
		return 0, io.ErrClosedPipe
	}
	vrt.Event("out-write", "out", 0)
	r.chunks = append(r.chunks, string(p))
	return len(p), nil
}
func (r *recOut) Close() error {
	vrt.Event("out-close", "out", 0)
	if r.gate != nil && !r.closed {
		r.gate.Close()
	}
	r.closed = true
	return nil
}

// ---- per-execution observation ----
type opRec struct {
	who, op       string
	data          string // bytes read, or the buffer written
	n             int
	err           error
	startedAfterC bool // issued after Close had returned
}

var (
	ops           []opRec
	closeReturned bool
	rec           *recOut
)

const source = "abcd"

// The harness' own shared variables (ops log, closeReturned flag) are declared to the runtime as
// objects so that the state cache treats accesses to them as dependent events.
func doRead(conn net.Conn, who string, size int) {
	vrt.Event("read-flag", "closeReturned", 0)
	after := closeReturned
	buf := make([]byte, size)
	n, err := conn.Read(buf)
	vrt.Event("log", "ops", 0)
	ops = append(ops, opRec{who, "read", string(buf[:n]), n, err, after})
}
func doWrite(conn net.Conn, who, data string) {
	vrt.Event("read-flag", "closeReturned", 0)
	after := closeReturned
	n, err := conn.Write([]byte(data))
	vrt.Event("log", "ops", 0)
	ops = append(ops, opRec{who, "write", data, n, err, after})
}

type shape struct {
	reads, writes int  // operations of R and W
	reader2       bool // a second reader thread
	lateR, lateW  bool // operations started by the closer after Close returned
	starve        bool // the source never delivers: the underlying Read stays blocked until Close
	writer2       bool // a second writer thread
	blockOut      bool // the underlying Write blocks until Close
}

func scenario(name string, sh shape) *vrt.Scenario {
	return &vrt.Scenario{
		Name:  name,
		Reset: func() { ops, closeReturned, rec = nil, false, nil },
		Body: func() {
			in := newIn()
			rec = &recOut{}
			if sh.blockOut {
				rec.gate = vrt.NewChan[struct{}](0)
			}
			if !sh.starve {
				in.feed("ab") // available at once; "cd" arrives later from the source thread
			}
			conn := fakenet.NewConn("c", in, rec)
			if (sh.reads > 0 || sh.reader2) && !sh.starve {
				vrt.Go("src", func() { in.feed("cd") })
			}
			if sh.reads > 0 {
				vrt.Go("R", func() {
					for i := 0; i < sh.reads; i++ {
						doRead(conn, "R", 2)
					}
				})
			}
			if sh.reader2 {
				vrt.Go("R2", func() { doRead(conn, "R2", 2) })
			}
			if sh.writes > 0 {
				vrt.Go("W", func() {
					for i, d := range []string{"xy", "z"}[:sh.writes] {
						_ = i
						doWrite(conn, "W", d)
					}
				})
			}
			if sh.writer2 {
				vrt.Go("W2", func() { doWrite(conn, "W2", "q") })
			}
			vrt.Go("C", func() {
				conn.Close()
				vrt.Event("set-flag", "closeReturned", 0)
				closeReturned = true
				if sh.lateR {
					doRead(conn, "L", 1)
				}
				if sh.lateW {
					doWrite(conn, "L", "q")
				}
			})
		},
		Observe: func() string {
			var sb strings.Builder
			for _, o := range ops {
				fmt.Fprintf(&sb, "%s.%s(%q,%d,%v,%v);", o.who, o.op, o.data, o.n, o.err != nil, o.startedAfterC)
			}
			if rec != nil {
				fmt.Fprintf(&sb, "rec=%q", rec.chunks)
			}
			return sb.String()
		},
		Check: check,
	}
}

// streammodel: the oracle for one finished execution.
func check(s *vrt.Sched) *vrt.Verdict {
	// (1) bytes returned by reads form a prefix of the source stream: per thread in return order; the
	// returns of different threads carry no order, so some merge of the per-thread sequences must do
	per := map[string][]string{}
	var who []string
	total := 0
	for _, o := range ops {
		if o.op == "read" && o.n > 0 {
			if _, ok := per[o.who]; !ok {
				who = append(who, o.who)
			}
			per[o.who] = append(per[o.who], o.data)
			total += o.n
		}
	}
	var merge func(rest string) bool
	merge = func(rest string) bool {
		done := true
		for _, w := range who {
			if len(per[w]) == 0 {
				continue
			}
			done = false
			h := per[w][0]
			if strings.HasPrefix(rest, h) {
				per[w] = per[w][1:]
				ok := merge(rest[len(h):])
				per[w] = append([]string{h}, per[w]...)
				if ok {
					return true
				}
			}
		}
		return done
	}
	if total > len(source) || !merge(source) {
		return &vrt.Verdict{Key: "read-data-not-a-prefix-of-source", What: "bytes returned by Read are reordered, duplicated or modified", Detail: fmt.Sprintf("reads per thread %v from source %q; ops=%+v", per, source, ops)}
	}
	// (2) what reached `out` is an in-order sequence of whole write buffers containing every acknowledged write
	var issued, acked []string
	for _, o := range ops {
		if o.op == "write" {
			issued = append(issued, o.data)
			if o.n > 0 && o.err == nil {
				if o.n != len(o.data) {
					return &vrt.Verdict{Key: "short-write-without-error", What: "Write returned n < len without error", Detail: fmt.Sprintf("%+v", o)}
				}
				acked = append(acked, o.data)
			}
		}
	}
	// the issue order across threads W and L is W.xy, W.z, then L.q (L starts after Close); ops are
	// appended at return time, so rebuild the issue order per thread
	order := map[string]int{"xy": 0, "z": 1, "q": 2}
	last := -1
	seen := map[string]bool{}
	for _, ch := range rec.chunks {
		k, ok := order[ch]
		if !ok {
			return &vrt.Verdict{Key: "written-data-modified", What: "the underlying writer received bytes that are not a whole write buffer", Detail: fmt.Sprintf("chunk %q; recorder=%q", ch, rec.chunks)}
		}
		if k <= last || seen[ch] {
			return &vrt.Verdict{Key: "written-data-reordered-or-duplicated", What: "writes reached the underlying writer out of order or twice", Detail: fmt.Sprintf("recorder=%q", rec.chunks)}
		}
		last, seen[ch] = k, true
	}
	for _, a := range acked {
		if !seen[a] {
			return &vrt.Verdict{Key: "acknowledged-write-lost", What: "a Write that returned success never reached the underlying writer", Detail: fmt.Sprintf("write %q; recorder=%q", a, rec.chunks)}
		}
	}
	// (3) every operation started after Close returned yields (0, io.EOF)
	for _, o := range ops {
		if o.startedAfterC && !(o.n == 0 && o.err == io.EOF) {
			return &vrt.Verdict{Key: "op-after-close-not-eof:" + o.op, What: "an operation started after Close returned did not yield (0, io.EOF)", Detail: fmt.Sprintf("%+v", o)}
		}
	}
	// (4) every operation returns: no harness thread may be left parked (deadlock verdict of the explorer
	// covers parked threads; a thread that never ran to its end would be listed in Stuck)
	for _, st := range s.Stuck {
		return &vrt.Verdict{Key: "thread-stuck", What: "a thread is still blocked at the end of the execution", Detail: fmt.Sprint(s.Stuck, st)}
	}
	return nil
}

func main() {
	c := engine.New("C41", "model_checking")
	scs := []*vrt.Scenario{
		scenario("reads2+close+lateRead", shape{reads: 2, lateR: true}),
		scenario("writes2+close+lateWrite", shape{writes: 2, lateW: true}),
		scenario("read+write+close", shape{reads: 1, writes: 1}),
		scenario("tworeaders+close", shape{reads: 1, reader2: true}),
		// the underlying stream call is blocked for good when the second caller and Close arrive
		scenario("tworeaders-starved+close", shape{reads: 1, reader2: true, starve: true}),
		scenario("twowriters-blocked-sink+close", shape{writes: 1, writer2: true, blockOut: true}),
		scenario("reader+writer-both-blocked+close", shape{reads: 1, writes: 1, starve: true, blockOut: true}),
	}
	smode.Main(c, scs, 1, 3,
		"Scenarios on the real x/fakenet (rewritten onto vrt): a source thread feeding \"ab\",\"cd\" into the in side, reader R (2 reads), optional second reader, writer W (2 writes), closer C, optional late user started after Close returned (1 read, 1 write); three scenarios in which the underlying Read never gets data and/or the underlying Write never completes until Close (two readers, two writers, reader+writer).",
		[]string{"oracle streammodel: reads return a prefix of the source in order; the underlying writer sees whole write buffers in issue order including every acknowledged write; operations started after Close returned yield (0, io.EOF); no thread remains blocked"})
}

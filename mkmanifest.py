#!/usr/bin/env python3
"""Regenerates MANIFEST.json from the table below (single source of truth for the registered checks)."""
import json, os
props = [json.loads(l) for l in open('/verif/properties.jsonl')]
ids = [p['id'] for p in props]
E = 'exploration'; M = 'model_checking'; F = 'fault_enumeration'
# id: (level, technique, level text, level_note, design_ref)
checks = {
 'C26': (F, 'crash-point enumeration on the real xgo binary under a ptrace/seccomp tracer: every file-system-mutating system call of the run, process tree killed at its entry and at its exit',
         'The real cmd/xgo is built from the tree; for each configuration (file kind x original mode x single file/directory) the ordered list of FS-mutating syscalls is recorded, then the run is repeated and SIGKILLed at the entry and at the exit of every call k; after each kill every target path must hold exactly the original or exactly the formatted bytes (and a complete mode), and after a clean run the permission bits are unchanged. Self-tests prove kill-at-entry means not executed and that no process survives.',
         'Crash model = SIGKILL at syscall boundaries (no power-loss / page-cache model); linux/amd64; running as root, so the read-only-file failure branch is not exercised; expected formatted bytes computed in-process.', '§2 C26'),
 'C27': (E, 'bounded-exhaustive enumeration of grammar texts (all escaped literals, operator strings, token sequences, rule-shape menu) x 7 entry points in crash-attributing workers',
         'Every `doc = <lit>` for all 256 byte escapes in three literal forms, every 2-3 byte string over a 17-symbol operator alphabet, every token sequence up to length 4/5 over 19 tokens, body sequences that reach recursion shapes, and a 146-entry rule-shape menu are compiled through tpl.New/NewEx and parser+cl.New/NewEx; oracle: returns a compiler or an error, no panic/fatal/hang.',
         'Sources are strings; RetProc parameters are not varied.', '§2 C27'),
 'C28': (E, 'bounded-exhaustive enumeration of 1-2 rule grammars (incl. nullable repetitions and left recursion) x all inputs up to 3 tokens, in memory/time-guarded workers, cross-checked by the reference analysis tplref',
         'All 1-rule grammars up to 3/4 operator nodes and 2-rule grammars up to 2/3 nodes over {\"a\", INT, \",\"} x {seq | * + ? % ++ ref} are compiled; compiled ones are matched on all 40 inputs of <=3 tokens through Parse and ParseExpr; a hang, stack overflow or runaway heap is a violation keyed by the defect class that tplref computes statically (nullable repetition body, left recursion); every compile-time rejection must be explained by left recursion per tplref.',
         'Termination verdicts come from a per-item 20 s limit and a heap watchdog in a subprocess (generous: terminating matches on these sizes need microseconds).', '§2 C28'),
 'C29': (E, 'bounded-exhaustive enumeration of grammars x token inputs against the reference semantics tplref (ordered choice, greedy repetition, ?, %, ++ adjacency, result shapes)',
         'Every grammar of the C28 space without nullable repetition/left recursion is matched by the real engine on every input of <=3/4 tokens over {a, b, 1, \",\", \"+\"} (plus glued spacings for ++); success/failure, tokens consumed and the complete result tree are compared with tplref. A pair is judged only when every mixture of backtracking and LL(1)-commit gives the same answer (the README is silent on a failed committed alternative); the rest is excluded and counted.',
         'tplref is written from tpl/README.md; only Compiler.Match without RetProcs; literal alphabet \"a\", INT, \",\".', '§2 C29'),
 'C39': (M, 'stateless model checking of the real Connection under a controlled scheduler: exhaustive enumeration of all schedules up to a preemption bound and all select tie-breaks, with happens-before state caching; per-execution oracle on awaits, wire log and Close',
         'x/jsonrpc2 (conn.go, serve.go, frame.go, jsonrpc2.go) is compiled against the virtual runtime (chan/select/go/sync/atomic/context rewritten at build time). Twelve scenarios through the public API over an in-memory pipe with a scripted peer: concurrent calls, Call||Close, Call||disconnect, blocking handler||cancel||Close, ErrAsyncResponse+Respond||Close, two connections calling back, Notify||Close, unknown/duplicate responses, reused request id, write failure. Every schedule with <=1 (quick) / <=2 (thorough) preemptions is executed; each Await must return exactly once with its own answer or an error, no internal panic, responses per id <= requests per id, Close never returns while a handler runs, nothing stays blocked.',
         'Sequential consistency at synchronisation operations; the two retire/cancel map loops iterate in sorted order; the connection-state-model (BFS) sub-check of the design was not built.', '§2 C39'),
 'C40': (M, 'stateless model checking of the real package under a controlled scheduler: exhaustive enumeration of all schedules up to a preemption bound with happens-before state caching; per-execution linearizability check (porcupine) + liveness',
         'x/watcher/changes.go is compiled against the virtual runtime (sync.Mutex/Cond -> vsync, the map iteration in Fetch -> explorer-owned choice). Four producer/consumer scenarios; every schedule with <=1 (quick) / <=2 (thorough) preemptions and every Cond.Signal / map-order choice is executed; each history is checked against a set model with porcupine v1.3.0 and for a fetcher asleep with a pending change.',
         'Scheduling points at synchronisation operations only (sequential consistency); the explorer owns mutex hand-off, cond wake-up choice and map iteration order; scenarios have <=3 producers, <=3 consumers, <=3 directories.', '§2 C40'),
 'C41': (M, 'stateless model checking of the real package under a controlled scheduler: exhaustive enumeration of all schedules up to a preemption bound and all select tie-breaks, with happens-before state caching; streammodel oracle per execution',
         'x/fakenet/conn.go is compiled against the virtual runtime (chan/select/go/sync.Mutex rewritten by engine/rewrite at build time). Four scenarios (2 reads+close+late read, 2 writes+close+late write, read+write+close, two readers+close); every schedule with <=1 (quick) / <=2 (thorough) preemptions is executed and judged: reads form a prefix of the source, the underlying writer sees whole buffers in order incl. every acknowledged write, operations started after Close yield (0, io.EOF), nothing stays blocked.',
         'vrt follows Go channel semantics (park on FIFO queues, commit by the waker, close wakes all); sequential consistency at synchronisation operations; in/out transports are harness code over vrt primitives.', '§2 C41'),
 'C34': (E, 'bounded-exhaustive enumeration of directories (all subsets up to size 2/3 of an 81-entry universe x contents x 10 configurations) on an in-memory FileSystem against the reference model dirref',
         'Every directory of <=2 (quick) / <=3 (thorough) entries from 8 stems x 10 extensions (+ a sub-directory), every package-clause assignment and 10 ClassKind/Mode/Filter configurations is parsed by the real ParseFSDir and compared with dirref: inclusion, Files vs GoFiles, package grouping, IsClass/IsProj/IsNormalGox, error presence.',
         'dirref is derived from the doc comments and the statement; .gop recognition and gop_autogen-as-prefix are taken from the code (docs silent); all file contents parse.', '§2 C34'),
 'C36': (M, 'explicit-state BFS over file-system histories of a real module directory, real PkgHash computed in every state, pairwise hash-vs-projection oracle',
         'BFS from the empty package directory over create/grow/touch/rename/delete/mkdir/rmdir to depth 4 (quick) / 6 (thorough), deduplicated on the abstract state; every state is materialised on disk with explicit mtimes and hashed by the real tool.Importer.PkgHash; globally, hashes are equal iff the relevant projections (non-underscore regular files with compilable extension: name,size,mtime) are equal.',
         'Regular files and directories only, whole-second mtimes, one module; the set of compilable extensions is cross-checked between code and statement.', '§2 C36'),
 'C38': (E, 'bounded-exhaustive enumeration of message sequences and of malformed streams (all truncations, single-byte substitutions, header menu) against an independent framing reference model, in worker subprocesses',
         'All sequences of <=2 (quick) / <=3 (thorough) messages over a 156-message menu are written by the real HeaderFramer, parsed by the reference framingref, read back whole and one byte per Read and compared; every truncation and every substitution from a 9-byte set at every position of base streams plus a 78-variant header/body menu are judged per Read against the reference (Accept/Reject/Unsure); consumption must end exactly at the declared length.',
         'Reference model from the LSP base protocol + JSON-RPC 2.0 texts; streams the reference cannot decide are excluded and counted; up-front allocation of the declared length (<=2 GiB) is observed, not judged.', '§2 C38'),
 'C17': (E, 'bounded-exhaustive enumeration of sources (corpus, seeds, expression grammar closed to depth 1/2 x statement contexts); every node of every tree checked against an independent scan and a re-parse',
         'All nodes of all cleanly parsing trees of the pool: Pos/End on token boundaries of an independent scan, children nested/ordered/disjoint, stand-alone expression kinds re-parse from their source slice to an equal tree. Complete over the enumerated pool.',
         'Necessary conditions only; nodes inside string/domain literals, implicit EmptyStmt, synthetic shadow-entry/file-name parts and the FuncType/receiver overlap (go/ast convention) are exempt.', '§2 C17'),
 'C19': (E, 'bounded-exhaustive enumeration of the formatter input pool in crash-attributing workers; re-parse oracle with structural tree equality',
         'Every pool source (seeds, grammar depth 1/2, every repository XGo file) is formatted; output must parse and be structurally equal (astx.Equal) to the input tree modulo positions, comments, import order/duplicates and redundant parentheses.',
         'Pool is finite and fully enumerated; sources that do not parse are outside the premise. Redundant-parenthesis removal (gofmt behaviour) is tolerated because a lost needed parenthesis still changes the re-parsed shape.', '§2 C19'),
 'C20': (E, 'bounded-exhaustive enumeration of the formatter input pool; byte equality of first and second pass',
         'Every pool source is formatted twice; the second output must equal the first byte for byte.', 'Same pool as C19.', '§2 C20'),
 'C21': (E, 'bounded-exhaustive enumeration: every pool source x every token boundary x three comment styles',
         'For every pool source of <=40 tokens a /*k*/, //k and # k comment is inserted at every token boundary (plus every source as is); the sequence of comment texts after formatting must equal the sequence before.',
         'Comment texts compared after trimming each line; variants that no longer parse are outside the premise (counted).', '§2 C21'),
 'C23': (E, 'bounded-exhaustive enumeration of import blocks (spec sequences x blank-line groupings x block/single forms x doc comments) with an independent line-based reader',
         'Every import block of <=3 (quick) / <=4 (thorough) specs from an 8-spec menu, every grouping, is formatted by format.Source; the (name,path) multiset, name/path pairing, comment texts and per-group sortedness are judged by a reader that does not use the ast package.',
         'Dedup is allowed, never demanded; sortedness of one-import-per-declaration form is not judged (SortImports documents blocks only).', '§2 C23'),
 'C24': (E, 'bounded-exhaustive enumeration of scripts (all chunk sequences up to length 4/5 over a 14-chunk menu) against a reference splitter/classifier',
         'Every script is rearranged by the real RearrangeFuncs and compared with a reference model (own depth-tracking splitter + Go-spec classifier): permutation of chunks, bytes preserved, untouched prefix, funcs first, stable order; SourceEx succeeds whenever format.Source succeeds on original or rearrangement.',
         'package/import/comment placement accepted under any documented-silent reading (counted); chunks are newline-separated complete statements.', '§2 C24'),
 'C30': (E, 'bounded-exhaustive enumeration of list results and arithmetic expressions against own folds and a precedence-climbing evaluator',
         'Real match results of R % sep grammars (1..4/5 elements, nested lists) through List/ListOp/RangeOp/BinaryOp/BinaryExpr variants compared with an independent left fold; three calculator grammars (README text) on every expression with <=3/4 operands vs a reference evaluator.',
         'Division by zero excluded (statement silent); BinaryExprNR only on flat lists.', '§2 C30'),
 'C31': (E, 'bounded-exhaustive enumeration of all grammar-expression trees up to 5/7 nodes printed with minimal and full parentheses, plus every single-leaf deletion',
         'Every tree is printed by an independent printer, parsed by the real tpl/parser and converted back for exact comparison; every leaf deletion must either still be a valid expression with the expected tree or be rejected with an error (never an empty rule).',
         'One rule per grammar, blank-separated tokens; error text not judged.', '§2 C31'),
 'C37': (E, 'bounded-exhaustive enumeration of a declaration grid plus all repository Go files; printed-header equality after fromgo+togo',
         'Every declaration of a large grid (func signatures x receivers x results, type expressions to depth 2/3, value expressions, struct/interface members, generics, const/var/import groups) and of 258 repository files is converted Go->XGo->Go and its go/printer text compared with the original (bodies emptied, comments stripped).',
         'Only what go/printer prints is observable (e.g. SliceExpr.Slice3, BasicLit.Kind are not); empty non-nil Names slices normalised.', '§2 C37'),
 'C18': (E, 'complete enumeration of synthesised trees (every node type x every subset of optional child fields) plus all parsed corpus/seed files, reflection oracle independent of Walk',
         'For each of the 70 node types every subset of its optional child fields is populated and walked with both Walk and Inspect; the visit tree must equal the reflection-derived child tree (each child exactly once, nil after children). Parsed corpus and seed trees additionally check sibling order by position. The node-type x field-subset space is finite and fully covered.',
         'Optional = documented \"or nil\" in ast/*.go or slice/map/any; synthetic parts (name of a file without package clause, non-body parts of shadow funcs) and FuncType position are exempt; deeper combinations than one node with leaf children are covered only through parsed trees.', '§2 C18'),
 'C13': (E, 'bounded-exhaustive enumeration of token sequences, byte strings, mode-flag combinations and 1-edit neighbourhoods, run in crash-attributing worker subprocesses',
         'Every token sequence up to 3 (quick) / 4 (thorough) tokens over a 73-token alphabet through four entry points, all 512 flag combinations on all <=2-token inputs, every byte string <=3 over the scanner alphabet and every 1-edit neighbour of ~90 hand seeds plus corpus files; oracle: returns, no escaping panic/fatal/hang, errors sorted, nil error implies no Bad node (reflection walk).',
         'Hang = no progress for 60 s on one input in a solo re-run; nothing is claimed for inputs longer than the bound that are not 1-edit neighbours of a seed.', '§2 C13'),
 'C15': (M, 'explicit-state BFS over the real scanner (state = private insertSemi/nParen/last lexeme, actions = separator x lexeme) plus bounded-exhaustive byte strings, invariants checked on every scan',
         'Every reachable abstract scanner state is expanded with every (separator, lexeme) action on the real scanner, and every byte string up to length 4/5 over a 24-byte alphabet is scanned in both comment modes; in each the totality/offset/text/coverage invariants of the statement are evaluated. Complete within the stated alphabets and bounds.',
         'State canonicalisation assumes Scan depends only on remaining bytes + (insertSemi, nParen, pending unit); nParen clamped to -2..3. c\"\"/py\"\" literals are compared after their prefix, ILLEGAL tokens exempt from text equality, inserted semicolons may share a comment offset.', '§2 C15'),
 'C16': (M, 'explicit-state BFS over the product of the XGo scanner and go/scanner driven by Go lexemes, plus bounded-exhaustive numeric and quote/escape strings',
         'Product exploration: every reachable (XGo scanner state, last lexeme) with every (separator, Go lexeme) action, complete token streams and error offsets compared with go/scanner; all strings up to length 5/6 over a 16-symbol numeric alphabet and 4/5 over a 13-symbol quote/escape alphabet. Recorded deviations are normalised away before anything else is compared, so they cannot mask other differences.',
         'go/scanner of the installed go1.23 is the reference; inputs containing XGo-only spellings (units, -> <> => ? $ c\"\" py\"\") are outside the premise and counted as excluded.', '§2 C16'),
 'C32': (M, 'explicit-state BFS over the product of the XGo scanner and the TPL scanner driven by shared lexemes, plus bounded-exhaustive byte strings',
         'Every reachable product state x every (separator, shared lexeme) action and every byte string up to length 4/5 over a 23-byte shared alphabet, in both comment modes; token kinds, offsets, literals and inserted semicolons compared.',
         'Keywords, c\"\"/py\"\" literals and the TPL-only operators ** ~ @ are not shared lexemes (excluded, counted). Error messages are not compared.', '§2 C32'),
 'C33': (E, 'complete enumeration of the finite token tables of both token packages',
         'The token tables are finite; every XGo token value 0..0x120, every operator/keyword/additional token, every go/token operator and keyword and every TPL token with a spelling is scanned alone and checked (token, String, Len, Precedence=>IsOperator, Lookup). This is a complete decision of the property.',
         'Semicolon-insertion expectations come from the Go spec plus the XGo additions ! ? ...', '§2 C33'),
 'C35': (E, 'bounded-exhaustive enumeration of all argument lists up to a length over a complete class alphabet, against a reference model',
         'Every argument list of length <=4 (quick) / <=5 (thorough) over 17 argument classes is run through the real ParseAll and compared with an independent in-order partition model; the space is finite and fully enumerated, so within the bound this is a complete decision.',
         'Trusts the reference model projref (30 lines) and the definition "file argument = last path element has a non-empty extension"; nothing is claimed for argument spellings outside the 17 classes or longer lists.', '§2 C35'),
}
na = {
}
m = {
 'version': 1,
 'setup_cmd': './setup.sh',
 'hooks': {'guard': 'verif', 'enable': 'checks build /repo through `go build -overlay <generated json>`; overlay files carry //go:build verif semantics by living only in the overlay (nothing is committed to /repo)',
           'baseline_off_cmd': 'cd /repo && go test -mod=mod -vet=off -count=1 -timeout 25m ./...', 'source_commits': [], 'add_only': True},
 'engines': [
  {'name': 'vrt', 'path': 'engine/vrt/', 'serves_properties': ['C39','C40','C41'], 'kind_free_text': 'virtual runtime + stateless explorer: cooperative scheduler, Go-faithful channels/select, vsync/vatomic/vcontext shims, preemption-bounded DFS over choice sequences, happens-before state caching, schedule record/replay'},
  {'name': 'rewrite', 'path': 'engine/rewrite/', 'serves_properties': ['C39','C40','C41'], 'kind_free_text': 'go/ast source rewriter producing a `go build -overlay` (chan/select/go/sync/atomic/context -> vrt), regenerated from the working tree on every build'},
  {'name': 'ptracer', 'path': 'engine/ptracer/', 'serves_properties': ['C26'], 'kind_free_text': 'pure-Go ptrace tracer (PTRACE_O_TRACECLONE/FORK, syscall entry/exit stops, optional seccomp RET_TRACE filter) that lists FS-mutating syscalls and kills the process tree at a chosen stop'},
  {'name': 'tplref', 'path': 'models/tplref/', 'serves_properties': ['C28','C29'], 'kind_free_text': 'reference semantics and static analyses (nullable, left recursion) of the TPL grammar language + index-addressable grammar enumerator'},
  {'name': 'engine', 'path': 'engine/', 'serves_properties': sorted(checks), 'kind_free_text': 'evidence/known-finding/replay plumbing, worker-subprocess pool with crash attribution, enumerators'},
 ],
 'checks': [], 'not_applicable': [],
 'notes': 'All checks: ./run.sh <id> quick|thorough|replay <file>; they rebuild against /repo working tree via the go.mod replace directive on every invocation.',
}
for i in ids:
    if i in checks:
        lvl, tech, text, note, ref = checks[i]
        m['checks'].append({'property_id': i, 'quick_cmd': f'./run.sh {i} quick', 'thorough_cmd': f'./run.sh {i} thorough',
            'evidence_file': f'/verif/evidence/{i}.json', 'replay_cmd_template': f'./run.sh {i} replay {{path}}', 'engine': 'engine',
            'level_claimed': {'category': lvl, 'text': text, 'design_ref': ref}, 'level_note': note, 'technique': tech})
    else:
        m['not_applicable'].append({'property_id': i, 'reason': na.get(i, 'check not built yet (work in progress; see DESIGN.md §5 build order) — not claimed')})
json.dump(m, open('/verif/MANIFEST.json', 'w'), indent=1)
print('checks:', len(m['checks']), 'not_applicable:', len(m['not_applicable']))

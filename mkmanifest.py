#!/usr/bin/env python3
"""Regenerates MANIFEST.json from the table below (single source of truth for the registered checks)."""
import json, os
props = [json.loads(l) for l in open('/verif/properties.jsonl')]
ids = [p['id'] for p in props]
E = 'exploration'; M = 'model_checking'; F = 'fault_enumeration'
# id: (level, technique, level text, level_note, design_ref)
checks = {
 'C35': (E, 'bounded-exhaustive enumeration of all argument lists up to a length over a complete class alphabet, against a reference model',
         'Every argument list of length <=4 (quick) / <=5 (thorough) over 17 argument classes is run through the real ParseAll and compared with an independent in-order partition model; the space is finite and fully enumerated, so within the bound this is a complete decision.',
         'Trusts the reference model projref (30 lines) and the definition "file argument = last path element has a non-empty extension"; nothing is claimed for argument spellings outside the 17 classes or longer lists.', '§2 C35'),
}
na = {
}
m = {
 'version': 1,
 'setup_cmd': './setup.sh',
 'hooks': {'guard': 'verif', 'enable': 'checks build /repo through `go build -overlay <generated json>`; overlay files carry //go:build verif semantics by living only in the overlay (nothing is committed to /repo)',
           'baseline_off_cmd': 'cd /repo && go test -mod=mod -vet=off -count=1 -timeout 25m ./...', 'source_commits': [], 'add_only': True},
 'engines': [
  {'name': 'engine', 'path': 'engine/', 'serves_properties': sorted(checks), 'kind_free_text': 'evidence/known-finding/replay plumbing, worker-subprocess pool with crash attribution, enumerators'},
 ],
 'checks': [], 'not_applicable': [],
 'notes': 'All checks: ./run.sh <id> quick|thorough|replay <file>; they rebuild against /repo working tree via the go.mod replace directive on every invocation.',
}
for i in ids:
    if i in checks:
        lvl, tech, text, note, ref = checks[i]
        m['checks'].append({'property_id': i, 'quick_cmd': f'./run.sh {i} quick', 'thorough_cmd': f'./run.sh {i} thorough',
            'evidence_file': f'/verif/evidence/{i}.json', 'replay_cmd_template': f'./run.sh {i} replay {{path}}', 'engine': 'engine',
            'level_claimed': {'category': lvl, 'text': text, 'design_ref': ref}, 'level_note': note, 'technique': tech})
    else:
        m['not_applicable'].append({'property_id': i, 'reason': na.get(i, 'check not built yet (work in progress; see DESIGN.md §5 build order) — not claimed')})
json.dump(m, open('/verif/MANIFEST.json', 'w'), indent=1)
print('checks:', len(m['checks']), 'not_applicable:', len(m['not_applicable']))
